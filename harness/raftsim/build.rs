//! Generates raft_gen.rs from the *unmodified* agdb_server/src/raft.rs of the repository:
//! the single import of `std::time::Instant` is replaced by the simulator's per-node virtual
//! clock and a read-only inspector is appended (it lives in the same module, so it can read
//! private fields). The build fails loudly if the import line is not found exactly once.
use std::path::PathBuf;

fn main() {
    let repo = std::env::var("VERIF_REPO").unwrap_or_else(|_| "/repo".to_string());
    let src = PathBuf::from(&repo).join("agdb_server/src/raft.rs");
    println!("cargo:rerun-if-changed={}", src.display());
    println!("cargo:rerun-if-env-changed=VERIF_REPO");
    println!("cargo:rerun-if-changed=build.rs");
    println!("cargo:rerun-if-changed=src/inspector.rs.in");
    let text = std::fs::read_to_string(&src).expect("cannot read raft.rs");
    let body = match text.find("#[cfg(test)]") {
        Some(p) => &text[..p],
        None => &text[..],
    };
    let needle = "use std::time::Instant;";
    assert_eq!(body.matches(needle).count(), 1, "raft.rs no longer imports std::time::Instant exactly once: the virtual clock cannot be substituted");
    let body = body.replace(needle, "use crate::vclock::Instant;");
    let inspector = std::fs::read_to_string("src/inspector.rs.in").expect("inspector");
    let out = PathBuf::from(std::env::var("OUT_DIR").unwrap()).join("raft_gen.rs");
    std::fs::write(out, format!("{body}\n{inspector}\n")).expect("write raft_gen.rs");
}
