//! Deterministic simulator around the unmodified agdb_server/src/raft.rs (C27-C30).
//! See DESIGN.md 2.7. The consensus code is compiled from the repository source with a per-node
//! virtual clock; the harness owns the schedule (timers, delivery, loss, duplication,
//! reordering) and checks the properties after every action.
mod server_error;
mod vclock;
#[allow(dead_code, unused, clippy::all)]
mod raft {
    include!(concat!(env!("OUT_DIR"), "/raft_gen.rs"));
}

use proptest::prelude::*;
use raft::{Cluster, ClusterSettings, Log, Request, Response, Storage, VState};
use serde::{Deserialize, Serialize};
use server_error::ServerResult;
use std::collections::{BTreeMap, BTreeSet, HashSet, VecDeque};
use std::time::Duration;
use vcheck::core::*;

const HEARTBEAT: u64 = 1000;
const TERM: u64 = 3000;
const ELECTION_FACTOR: u64 = 1000;

// ---------------------------------------------------------------------------------------
// in-memory log storage mirroring ClusterStorage / ClusterLog

#[derive(Clone, Debug, PartialEq, Eq, Hash)]
struct Entry {
    index: u64,
    term: u64,
    data: u8,
    committed: bool,
}

#[derive(Default)]
struct MemStorage {
    /// all log entries in append order (committed ones are never removed)
    entries: Vec<Entry>,
    index: u64,
    term: u64,
    commit: u64,
    /// indexes in the order their execution was started
    executed: Vec<u64>,
    /// every removal performed by append: (index, term, data, was committed)
    removed: Vec<Entry>,
}

impl Storage<u8, ()> for MemStorage {
    async fn append(&mut self, log: Log<u8>, _notifier: Option<()>) -> ServerResult<()> {
        // ClusterLog::remove_uncommitted_logs(from = log.index), then append
        let (keep, gone): (Vec<Entry>, Vec<Entry>) = self.entries.drain(..).partition(|e| e.committed || e.index < log.index);
        self.entries = keep;
        self.removed.extend(gone);
        self.entries.push(Entry { index: log.index, term: log.term, data: log.data, committed: false });
        self.index = log.index;
        self.term = log.term;
        Ok(())
    }
    async fn commit(&mut self, index: u64) -> ServerResult<()> {
        let mut idx: Vec<usize> = (0..self.entries.len()).filter(|i| !self.entries[*i].committed && self.entries[*i].index <= index).collect();
        idx.sort_by_key(|i| self.entries[*i].index);
        for i in idx {
            self.commit = index;
            self.entries[i].committed = true;
            self.executed.push(self.entries[i].index);
        }
        Ok(())
    }
    fn log_index(&self) -> u64 {
        self.index
    }
    fn log_term(&self) -> u64 {
        self.term
    }
    fn log_commit(&self) -> u64 {
        self.commit
    }
    async fn logs(&self, from_index: u64) -> ServerResult<Vec<Log<u8>>> {
        // ClusterLog::logs_since: the entries after the first `from_index` ones, in append order
        Ok(self.entries.iter().skip(from_index as usize).map(|e| Log { db_id: None, index: e.index, term: e.term, data: e.data }).collect())
    }
}

fn block_on<F: std::future::Future>(f: F) -> F::Output {
    use std::task::{Context, Poll, RawWaker, RawWakerVTable, Waker};
    fn noop(_: *const ()) {}
    fn clone(_: *const ()) -> RawWaker {
        RawWaker::new(std::ptr::null(), &VTABLE)
    }
    static VTABLE: RawWakerVTable = RawWakerVTable::new(clone, noop, noop, noop);
    let waker = unsafe { Waker::from_raw(RawWaker::new(std::ptr::null(), &VTABLE)) };
    let mut cx = Context::from_waker(&waker);
    let mut f = std::pin::pin!(f);
    match f.as_mut().poll(&mut cx) {
        Poll::Ready(v) => v,
        Poll::Pending => panic!("harness: a raft future pended with in-memory storage"),
    }
}

// ---------------------------------------------------------------------------------------
// schedules

#[derive(Clone, Copy, Debug, PartialEq, Eq, Hash, Serialize, Deserialize)]
pub enum Dt {
    Ms1,
    Heartbeat,
    /// this node's own election timeout + 1
    Election,
    Term,
}

#[derive(Clone, Debug, PartialEq, Eq, Hash, Serialize, Deserialize)]
pub enum Action {
    /// advance one node's clock and call process()
    Tick { node: u8, dt: Dt },
    /// deliver a request of a non-empty directed channel (selector) to its target; `pos` > 0
    /// reorders within the channel (adversarial mode only)
    Deliver { chan: u16, pos: u8 },
    /// the target processes the request but the response is lost
    DeliverLoseResponse { chan: u16 },
    /// the request is lost
    Drop { chan: u16 },
    /// duplicate the oldest request of a channel (adversarial mode only)
    Duplicate { chan: u16 },
    /// the sender processes a received (request, response) pair
    ProcessResponse { node: u16, pos: u8 },
    /// client append at a node that currently believes it is the leader
    Append { node: u16, data: u8 },
    /// the network behaves for `secs` seconds: every 10 ms all clocks advance together, every
    /// node's process() runs and all in-flight messages are delivered in FIFO order
    Heal { secs: u8 },
    /// like Heal, but for `secs` seconds every message between the two sides of the partition
    /// (`mask` bit i = side of node i) is lost, requests and responses alike
    Partition { mask: u8, secs: u8 },
}

#[derive(Clone, Debug, Serialize, Deserialize)]
pub struct Schedule {
    pub nodes: u8,
    pub adversarial: bool,
    pub actions: Vec<Action>,
}

type Node = Cluster<u8, (), MemStorage>;

struct Sim {
    n: usize,
    adversarial: bool,
    nodes: Vec<Node>,
    /// FIFO per directed pair [src][dst]
    req: Vec<Vec<VecDeque<Request<u8>>>>,
    /// per sender: received (request, response) pairs in arrival order
    resp: Vec<VecDeque<(Request<u8>, Response)>>,
    // --- observers
    leaders_of_term: BTreeMap<u64, BTreeSet<usize>>,
    was_leader: Vec<Option<u64>>,
    /// (node, term) -> candidate the node granted its vote to
    votes: BTreeMap<(usize, u64), usize>,
    double_votes: u64,
    divergent_appends: u64,
    /// a leader advanced its commit to an entry of an earlier term than its own (Raft's
    /// "commit only entries of the current term by counting replicas" rule broken)
    old_term_commits: u64,
    /// a leader advanced its commit to an entry that fewer than a quorum of nodes hold
    stale_quorum_commits: u64,
    /// per committed entry (index, term, data): 1 = committed by a leader of a later term,
    /// 2 = committed while fewer than a quorum held it
    entry_flags: BTreeMap<(u64, u64, u8), u8>,
    /// nodes that accepted an append on a divergent prefix
    divergent_nodes: BTreeSet<usize>,
    leader_commit_seen: Vec<BTreeSet<(u64, u64, u8)>>,
    committed_seen: Vec<BTreeMap<u64, (u64, u8)>>,
    commit_seen: Vec<u64>,
    /// entries committed by a node while it was leader: index -> (term, data)
    /// index -> (entry term, data) plus the term of the leader that committed it
    acked: BTreeMap<u64, (u64, u8)>,
    acked_in_term: BTreeMap<u64, u64>,
    // --- exclusion by construction (pass B)
    exclude_double_vote: bool,
    exclude_divergent_append: bool,
    excluded: u64,
    // --- statistics
    faults: u64,
    leader_changes: u64,
    appends: Vec<(u64, u64)>, // (term, index)
    delivered: u64,
    trace: Vec<String>,
}

fn election_timeout(node: usize) -> u64 {
    ELECTION_FACTOR * node as u64
}

impl Sim {
    fn new(n: usize, adversarial: bool) -> Self {
        vclock::reset(n);
        let nodes = (0..n)
            .map(|i| {
                vclock::set_current(i);
                Cluster::new(
                    MemStorage::default(),
                    ClusterSettings {
                        index: i as u64,
                        size: n as u64,
                        hash: 7,
                        election_factor_ms: ELECTION_FACTOR,
                        heartbeat_timeout: Duration::from_millis(HEARTBEAT),
                        term_timeout: Duration::from_millis(TERM),
                    },
                )
            })
            .collect();
        Sim {
            n,
            adversarial,
            nodes,
            req: (0..n).map(|_| (0..n).map(|_| VecDeque::new()).collect()).collect(),
            resp: (0..n).map(|_| VecDeque::new()).collect(),
            leaders_of_term: BTreeMap::new(),
            was_leader: vec![None; n],
            votes: BTreeMap::new(),
            double_votes: 0,
            divergent_appends: 0,
            old_term_commits: 0,
            stale_quorum_commits: 0,
            entry_flags: BTreeMap::new(),
            divergent_nodes: BTreeSet::new(),
            leader_commit_seen: vec![BTreeSet::new(); n],
            committed_seen: vec![BTreeMap::new(); n],
            commit_seen: vec![0; n],
            acked: BTreeMap::new(),
            acked_in_term: BTreeMap::new(),
            exclude_double_vote: false,
            exclude_divergent_append: false,
            excluded: 0,
            faults: 0,
            leader_changes: 0,
            appends: vec![],
            delivered: 0,
            trace: vec![],
        }
    }

    fn enqueue(&mut self, src: usize, requests: Vec<Request<u8>>) {
        for r in requests {
            let dst = r.target as usize;
            self.req[src][dst].push_back(r);
        }
    }

    fn channels(&self) -> Vec<(usize, usize)> {
        let mut v = vec![];
        for s in 0..self.n {
            for d in 0..self.n {
                if !self.req[s][d].is_empty() {
                    v.push((s, d));
                }
            }
        }
        v
    }

    fn in_flight(&self) -> usize {
        self.req.iter().flatten().map(|q| q.len()).sum::<usize>() + self.resp.iter().map(|q| q.len()).sum::<usize>()
    }

    fn latest_entries(st: &MemStorage, below: u64) -> BTreeMap<u64, (u64, u8)> {
        let mut m = BTreeMap::new();
        for e in &st.entries {
            if e.index < below {
                m.insert(e.index, (e.term, e.data));
            }
        }
        m
    }

    /// delivers request `r` from `src` to `dst`; returns the response
    fn process_request(&mut self, src: usize, dst: usize, r: &Request<u8>) -> Option<Response> {
        // exclusion by construction (pass B) and trigger detection (pass A)
        let kind = r.v_kind();
        let mut would_double_vote = false;
        if kind == 3 {
            if let Some(c) = self.votes.get(&(dst, r.v_term())) {
                if *c != src {
                    would_double_vote = true;
                }
            }
            if would_double_vote && self.exclude_double_vote {
                self.excluded += 1;
                self.trace.push(format!("  (excluded: vote request {src}->{dst} term {} would be a second vote in that term)", r.v_term()));
                return None;
            }
        }
        let mut divergent = false;
        if kind == 0 {
            if let Some((first, _)) = r.v_entries().first() {
                let a = Self::latest_entries(&self.nodes[dst].storage, *first);
                let b = Self::latest_entries(&self.nodes[src].storage, *first);
                divergent = a != b;
            }
            if divergent && self.exclude_divergent_append {
                self.excluded += 1;
                self.trace.push(format!("  (excluded: append {src}->{dst} on a divergent prefix)"));
                return None;
            }
        }
        vclock::set_current(dst);
        let before = self.nodes[dst].storage.entries.clone();
        let response = block_on(self.nodes[dst].request(r));
        self.delivered += 1;
        self.observe_commits();
        if kind == 3 && response.v_ok() {
            if would_double_vote {
                self.double_votes += 1;
            }
            self.votes.insert((dst, r.v_term()), src);
        }
        if kind == 0 && divergent && response.v_ok() && self.nodes[dst].storage.entries != before {
            self.divergent_appends += 1;
            self.divergent_nodes.insert(dst);
            // the stale entries that survived below the accepted one are what later gets
            // committed and propagated in place of the leader's: they carry the cause with them
            if let Some((first, _)) = r.v_entries().first() {
                let a = Self::latest_entries(&self.nodes[dst].storage, *first);
                let b = Self::latest_entries(&self.nodes[src].storage, *first);
                for (idx, e) in a {
                    if b.get(&idx) != Some(&e) {
                        *self.entry_flags.entry((idx, e.0, e.1)).or_default() |= 4;
                    }
                }
            }
        }
        self.trace.push(format!(
            "  {src}->{dst} {} term {} log {:?} entries {:?} => {}",
            ["Append", "Heartbeat", "PreVote", "Vote"][kind as usize],
            r.v_term(),
            r.v_log(),
            r.v_entries(),
            response.v_name()
        ));
        Some(response)
    }

    fn step(&mut self, a: &Action) {
        match a {
            Action::Tick { node, dt } => {
                let node = *node as usize % self.n;
                let ms = match dt {
                    Dt::Ms1 => 1,
                    Dt::Heartbeat => HEARTBEAT + 1,
                    Dt::Election => election_timeout(node) + 1,
                    Dt::Term => TERM + 1,
                };
                vclock::advance(node, ms);
                vclock::set_current(node);
                self.trace.push(format!("tick node {node} +{ms}ms"));
                if let Some(requests) = self.nodes[node].process() {
                    self.enqueue(node, requests);
                }
            }
            Action::Deliver { chan, pos } => {
                let ch = self.channels();
                if ch.is_empty() {
                    return;
                }
                let (s, d) = ch[pick(*chan, ch.len())];
                let p = if self.adversarial { (*pos as usize) % self.req[s][d].len() } else { 0 };
                if p > 0 {
                    self.faults += 1;
                }
                let r = self.req[s][d].remove(p).unwrap();
                self.trace.push(format!("deliver {s}->{d}{}", if p > 0 { " (reordered)" } else { "" }));
                if let Some(resp) = self.process_request(s, d, &r) {
                    self.resp[s].push_back((r, resp));
                }
            }
            Action::DeliverLoseResponse { chan } => {
                let ch = self.channels();
                if ch.is_empty() {
                    return;
                }
                let (s, d) = ch[pick(*chan, ch.len())];
                let r = self.req[s][d].pop_front().unwrap();
                self.faults += 1;
                self.trace.push(format!("deliver {s}->{d}, response lost"));
                let _ = self.process_request(s, d, &r);
            }
            Action::Drop { chan } => {
                let ch = self.channels();
                if ch.is_empty() {
                    return;
                }
                let (s, d) = ch[pick(*chan, ch.len())];
                self.req[s][d].pop_front();
                self.faults += 1;
                self.trace.push(format!("drop request {s}->{d}"));
            }
            Action::Duplicate { chan } => {
                if !self.adversarial {
                    return;
                }
                let ch = self.channels();
                if ch.is_empty() {
                    return;
                }
                let (s, d) = ch[pick(*chan, ch.len())];
                let copy = self.req[s][d].front().unwrap().v_clone();
                self.req[s][d].push_back(copy);
                self.faults += 1;
                self.trace.push(format!("duplicate request {s}->{d}"));
            }
            Action::ProcessResponse { node, pos } => {
                let with: Vec<usize> = (0..self.n).filter(|i| !self.resp[*i].is_empty()).collect();
                if with.is_empty() {
                    return;
                }
                let s = with[pick(*node, with.len())];
                // responses of different targets travel on different connections and may overtake
                // each other; within one target the order is kept unless the network is adversarial
                let candidates: Vec<usize> = if self.adversarial {
                    (0..self.resp[s].len()).collect()
                } else {
                    let mut seen = BTreeSet::new();
                    (0..self.resp[s].len()).filter(|i| seen.insert(self.resp[s][*i].0.target)).collect()
                };
                let p = candidates[(*pos as usize) % candidates.len()];
                let (r, resp) = self.resp[s].remove(p).unwrap();
                vclock::set_current(s);
                self.trace.push(format!("node {s} processes response {} from {}", resp.v_name(), r.target));
                match block_on(self.nodes[s].response(&r, &resp)) {
                    Ok(Some(requests)) => self.enqueue(s, requests),
                    Ok(None) => {}
                    Err(e) => self.trace.push(format!("  response handler error {e:?}")),
                }
            }
            Action::Heal { secs } => self.heal(*secs, 0),
            Action::Partition { mask, secs } => self.heal(*secs, *mask),
            Action::Append { node, data } => {
                // only at a node that believes it is the leader (what forward_to_leader enforces)
                let leaders: Vec<usize> = (0..self.n).filter(|i| self.nodes[*i].leader() == Some(*i as u64)).collect();
                if leaders.is_empty() {
                    return;
                }
                let l = leaders[pick(*node, leaders.len())];
                vclock::set_current(l);
                self.trace.push(format!("append {data} at leader {l}"));
                match block_on(self.nodes[l].append(*data, None)) {
                    Ok(requests) => {
                        let (li, lt, _) = self.nodes[l].v_local();
                        self.appends.push((lt, li));
                        self.enqueue(l, requests);
                    }
                    Err(e) => self.trace.push(format!("  append error {e:?}")),
                }
            }
        }
    }

    fn heal(&mut self, secs: u8, mask: u8) {
        let side = |i: usize| (mask >> i) & 1;
        let split = (0..self.n).any(|i| side(i) != side(0));
        if split {
            self.trace.push(format!("network partitioned for {secs} s: {:?} | {:?}", (0..self.n).filter(|i| side(*i) == 0).collect::<Vec<_>>(), (0..self.n).filter(|i| side(*i) == 1).collect::<Vec<_>>()));
        } else {
            self.trace.push(format!("network healthy for {secs} s"));
        }
        let start = self.trace.len();
        for round in 0..(secs as u64 * 100) {
            // keep the trace readable: only the first and last lines of a healthy period stay
            if round % 50 == 0 && self.trace.len() > start + 160 {
                let tail: Vec<String> = self.trace[self.trace.len() - 60..].to_vec();
                self.trace.truncate(start + 60);
                self.trace.push("  ... (lines omitted)".into());
                self.trace.extend(tail);
            }
            let mut guard = 0;
            while self.in_flight() > 0 && guard < 64 {
                guard += 1;
                let ch = self.channels();
                if let Some((s, d)) = ch.first().cloned() {
                    let r = self.req[s][d].pop_front().unwrap();
                    if side(s) != side(d) {
                        self.faults += 1;
                        self.trace.push(format!("drop request {s}->{d} (partition)"));
                        continue;
                    }
                    self.trace.push(format!("deliver {s}->{d}"));
                    if let Some(resp) = self.process_request(s, d, &r) {
                        self.resp[s].push_back((r, resp));
                    }
                } else if let Some(s) = (0..self.n).find(|i| !self.resp[*i].is_empty()) {
                    let (r, resp) = self.resp[s].pop_front().unwrap();
                    vclock::set_current(s);
                    self.trace.push(format!("node {s} processes response {} from {}", resp.v_name(), r.target));
                    if let Ok(Some(requests)) = block_on(self.nodes[s].response(&r, &resp)) {
                        self.enqueue(s, requests);
                    }
                    self.observe_commits();
                }
            }
            for i in 0..self.n {
                vclock::advance(i, 10);
            }
            for i in 0..self.n {
                vclock::set_current(i);
                if let Some(requests) = self.nodes[i].process() {
                    self.enqueue(i, requests);
                }
            }
        }
    }

    /// the trigger predicates that fired in this history, as text
    fn cause(&self) -> String {
        let mut c = vec![];
        if self.double_votes > 0 {
            c.push("a node voted twice in one term");
        }
        if self.divergent_appends > 0 {
            c.push("an append was accepted on a divergent prefix");
        }
        if self.old_term_commits > 0 {
            c.push("a leader committed an entry of an earlier term by counting replicas");
        }
        if self.stale_quorum_commits > 0 {
            c.push("a leader committed an entry held by fewer than a quorum");
        }
        if c.is_empty() { String::new() } else { format!(" (after {})", c.join(" and ")) }
    }

    /// Signature of a C28 agreement failure (different entries committed at one index, on one
    /// node or on two; a committed entry removed or replaced). When the history contains an
    /// append accepted on a divergent prefix (and no double vote) these symptoms share that one
    /// root cause and one signature, which is the listed known finding; otherwise the symptom
    /// itself (plus any other trigger seen) is the signature.
    /// Signature of an agreement failure between the entries `a` and `b` (index, term, data)
    /// held by the nodes `na` and `nb`: the cause is attributed to what happened to THESE entries
    /// and nodes, not to anything that happened somewhere in the history, so that a listed root
    /// cause never absorbs a failure it did not produce.
    fn agreement_sig(&self, symptom: &str, nodes: &[usize], entries: &[(u64, u64, u8)]) -> String {
        let flags = entries.iter().fold(0u8, |f, e| f | self.entry_flags.get(e).cloned().unwrap_or(0));
        // root cause A: one of the conflicting nodes accepted an append on a divergent prefix,
        // or one of the entries was committed by counting such a follower as a replica (it then
        // was held by fewer than a quorum)
        let a = flags & 4 != 0 || nodes.iter().any(|n| self.divergent_nodes.contains(n)) || (flags & 2 != 0 && self.divergent_appends > 0);
        // root cause B: one of the entries was committed by a leader of a later term
        let b = flags & 1 != 0;
        // unlisted: committed below a quorum although no follower ever diverged
        let stale = flags & 2 != 0 && self.divergent_appends == 0;
        let mut c = vec![];
        if self.double_votes > 0 {
            c.push("a node voted twice in one term");
        }
        if a {
            c.push("an append was accepted on a divergent prefix");
        }
        if b {
            c.push("an entry was committed by a leader of a later term by counting replicas");
        }
        if stale {
            c.push("an entry was committed while fewer than a quorum held it");
        }
        let listed = self.double_votes == 0 && !stale && (a || b);
        let cause = if c.is_empty() { String::new() } else { format!(" (after {})", c.join(" and ")) };
        if listed { format!("committed entries disagree or change{cause}") } else { format!("{symptom}{cause}") }
    }

    /// Trigger predicates evaluated at the moment a leader advances its commit (called after
    /// every primitive event, also inside the healthy/partitioned macro actions, so that "who
    /// held the entry when it was committed" is not judged after the fact).
    fn observe_commits(&mut self) {
        for i in 0..self.n {
            if self.nodes[i].v_state() == VState::Leader {
                let term = self.nodes[i].v_term();
                let quorum = self.n / 2 + 1;
                let newly: Vec<(u64, u64, u8)> = self.nodes[i].storage.entries.iter().filter(|e| e.committed && !self.leader_commit_seen[i].contains(&(e.index, e.term, e.data))).map(|e| (e.index, e.term, e.data)).collect();
                for (idx, t, d) in newly {
                    self.leader_commit_seen[i].insert((idx, t, d));
                    if t < term {
                        self.old_term_commits += 1;
                        *self.entry_flags.entry((idx, t, d)).or_default() |= 1;
                    }
                    let holders = (0..self.n).filter(|k| self.nodes[*k].storage.entries.iter().any(|x| x.index == idx && x.term == t && x.data == d)).count();
                    if holders < quorum {
                        self.stale_quorum_commits += 1;
                        *self.entry_flags.entry((idx, t, d)).or_default() |= 2;
                    }
                }
            } else {
                // what a node commits while it is not a leader is not an acknowledgement point
                for e in self.nodes[i].storage.entries.iter().filter(|e| e.committed) {
                    self.leader_commit_seen[i].insert((e.index, e.term, e.data));
                }
            }
        }
    }

    /// Invariants checked after every action. `which`: property being decided.
    fn check(&mut self, which: Which) -> Result<(), Fail> {
        self.observe_commits();
        // observers
        for i in 0..self.n {
            let st = self.nodes[i].v_state();
            let term = self.nodes[i].v_term();
            let is_leader = st == VState::Leader;
            let became = is_leader && self.was_leader[i] != Some(term);
            if became {
                self.leader_changes += 1;
                self.leaders_of_term.entry(term).or_default().insert(i);
                if which == Which::C29 {
                    // every acknowledged entry must be in the new leader's log at the same index
                    let log = Self::latest_entries(&self.nodes[i].storage, u64::MAX);
                    for (idx, e) in &self.acked {
                        // leader completeness speaks of leaders of LATER terms: a node that wins
                        // an election of an earlier term only now (delayed vote responses) is a
                        // stale leader and cannot commit anything
                        if self.acked_in_term.get(idx).map(|t| *t >= term).unwrap_or(false) {
                            continue;
                        }
                        if log.get(idx) != Some(e) {
                            let mut c = vec![];
                            if self.double_votes > 0 {
                                c.push("a node voted twice in one term");
                            }
                            if !self.divergent_nodes.is_empty() {
                                c.push("an append was accepted on a divergent prefix");
                            }
                            if self.entry_flags.get(&(*idx, e.0, e.1)).cloned().unwrap_or(0) & 1 != 0 {
                                c.push("the entry was committed by a leader of a later term by counting replicas");
                            }
                            let cause = if c.is_empty() { String::new() } else { format!(" (after {})", c.join(" and ")) };
                            return Err(Fail::new(
                                format!("entry committed by a leader is missing at a later leader{cause}"),
                                format!("node {i} became leader of term {term} without entry index {idx} {e:?}; its log {log:?}\ntrace:\n{}", self.trace.join("\n")),
                            ));
                        }
                    }
                }
            }
            self.was_leader[i] = if is_leader { Some(term) } else { None };
        }
        if which == Which::C27 {
            for (term, set) in &self.leaders_of_term {
                if set.len() > 1 {
                    return Err(Fail::new(
                        format!("two leaders in one term{}", self.cause()),
                        format!("term {term}: nodes {set:?} were leader\ntrace:\n{}", self.trace.join("\n")),
                    ));
                }
            }
        }
        // committed entries
        let mut all: BTreeMap<u64, (u64, u8, usize)> = BTreeMap::new();
        for i in 0..self.n {
            let st = &self.nodes[i].storage;
            let mut committed: BTreeMap<u64, (u64, u8)> = BTreeMap::new();
            for e in st.entries.iter().filter(|e| e.committed) {
                if let Some(prev) = committed.insert(e.index, (e.term, e.data)) {
                    if matches!(which, Which::C28) && prev != (e.term, e.data) {
                        return Err(Fail::new(
                            self.agreement_sig("a node committed two different entries at one index", &[i], &[(e.index, prev.0, prev.1), (e.index, e.term, e.data)]),
                            format!("node {i} index {} {prev:?} and {:?}\ntrace:\n{}", e.index, (e.term, e.data), self.trace.join("\n")),
                        ));
                    }
                }
            }
            if which == Which::C28 {
                for (idx, e) in &self.committed_seen[i] {
                    if committed.get(idx) != Some(e) {
                        return Err(Fail::new(
                            self.agreement_sig("a committed entry was removed or replaced", &[i], &[(*idx, e.0, e.1)]),
                            format!("node {i} index {idx}: was {e:?}, now {:?}\ntrace:\n{}", committed.get(idx), self.trace.join("\n")),
                        ));
                    }
                }
                let (li, _, lc) = self.nodes[i].v_local();
                if st.commit < self.commit_seen[i] {
                    return Err(Fail::new(format!("commit index decreased{}", self.cause()), format!("node {i}: {} -> {}\ntrace:\n{}", self.commit_seen[i], st.commit, self.trace.join("\n"))));
                }
                if lc > li {
                    return Err(Fail::new(
                        format!("commit index beyond the end of the log{}", self.cause()),
                        format!("node {i}: commit {lc} log index {li}\ntrace:\n{}", self.trace.join("\n")),
                    ));
                }
                for (idx, e) in &committed {
                    if let Some((t, d, other)) = all.get(idx) {
                        if (*t, *d) != *e {
                            return Err(Fail::new(
                                self.agreement_sig("two nodes committed different entries at one index", &[*other, i], &[(*idx, *t, *d), (*idx, e.0, e.1)]),
                                format!("index {idx}: node {other} has {:?}, node {i} has {e:?}\ntrace:\n{}", (t, d), self.trace.join("\n")),
                            ));
                        }
                    } else {
                        all.insert(*idx, (e.0, e.1, i));
                    }
                }
            }
            // acknowledgement point: a node in Leader state advanced its commit
            if self.nodes[i].v_state() == VState::Leader {
                for (idx, e) in &committed {
                    if !self.committed_seen[i].contains_key(idx) {
                        if !self.acked.contains_key(idx) {
                            self.acked_in_term.insert(*idx, self.nodes[i].v_term());
                        }
                        self.acked.entry(*idx).or_insert(*e);
                    }
                }
            }
            self.commit_seen[i] = st.commit;
            self.committed_seen[i] = committed;
        }
        Ok(())
    }
}

#[derive(Clone, Copy, PartialEq, Eq, Debug)]
enum Which {
    C27,
    C28,
    C29,
}

struct RunInfo {
    leaders: u64,
    faults: u64,
    appends_terms: usize,
    leader_changes: u64,
    double_votes: u64,
    divergent_appends: u64,
    old_term_commits: u64,
    stale_quorum_commits: u64,
    excluded: u64,
    acked: usize,
    delivered: u64,
}

fn run_schedule(s: &Schedule, which: Which, pass_b: bool) -> Result<RunInfo, Fail> {
    let n = (s.nodes as usize).clamp(2, 7);
    let mut sim = Sim::new(n, s.adversarial);
    sim.exclude_double_vote = pass_b;
    sim.exclude_divergent_append = pass_b;
    for a in &s.actions {
        catch(|| sim.step(a)).map_err(|mut f| {
            f.detail = format!("{} during {a:?}\ntrace:\n{}", f.detail, sim.trace.join("\n"));
            f
        })?;
        sim.check(which)?;
    }
    Ok(RunInfo {
        leaders: sim.leaders_of_term.values().map(|s| s.len() as u64).sum(),
        faults: sim.faults,
        appends_terms: sim.appends.iter().map(|(t, _)| *t).collect::<BTreeSet<_>>().len(),
        leader_changes: sim.leader_changes,
        double_votes: sim.double_votes,
        divergent_appends: sim.divergent_appends,
        old_term_commits: sim.old_term_commits,
        stale_quorum_commits: sim.stale_quorum_commits,
        excluded: sim.excluded,
        acked: sim.acked.len(),
        delivered: sim.delivered,
    })
}

fn action(nodes: u8, adversarial: bool) -> BoxedStrategy<Action> {
    let dt = prop_oneof![2 => Just(Dt::Ms1), 3 => Just(Dt::Heartbeat), 4 => Just(Dt::Election), 3 => Just(Dt::Term)];
    let mut alts: Vec<(u32, BoxedStrategy<Action>)> = vec![
        (10, (0..nodes, dt).prop_map(|(node, dt)| Action::Tick { node, dt }).boxed()),
        (16, (any::<u16>(), if adversarial { 0u8..4 } else { 0u8..1 }).prop_map(|(chan, pos)| Action::Deliver { chan, pos }).boxed()),
        (3, any::<u16>().prop_map(|chan| Action::DeliverLoseResponse { chan }).boxed()),
        (4, any::<u16>().prop_map(|chan| Action::Drop { chan }).boxed()),
        (12, (any::<u16>(), 0u8..3).prop_map(|(node, pos)| Action::ProcessResponse { node, pos }).boxed()),
        (5, (any::<u16>(), any::<u8>()).prop_map(|(node, data)| Action::Append { node, data }).boxed()),
        (1, (1u8..6).prop_map(|secs| Action::Heal { secs }).boxed()),
        (2, (1u8..31, 1u8..8).prop_map(|(mask, secs)| Action::Partition { mask, secs }).boxed()),
    ];
    if adversarial {
        alts.push((3, any::<u16>().prop_map(|chan| Action::Duplicate { chan }).boxed()));
    }
    proptest::strategy::Union::new_weighted(alts).boxed()
}

/// the shape named in C27: let a node vote, expire its term timer, deliver a competing vote
fn biased_prefix() -> Vec<Action> {
    vec![
        Action::Tick { node: 1, dt: Dt::Election },
        Action::Deliver { chan: 0, pos: 0 },
        Action::Deliver { chan: 0, pos: 0 },
        Action::ProcessResponse { node: 0, pos: 0 },
        Action::ProcessResponse { node: 0, pos: 0 },
    ]
}

fn schedule(max_len: usize) -> impl Strategy<Value = Schedule> {
    (prop_oneof![4 => Just(3u8), 1 => Just(5u8)], any::<bool>(), any::<bool>()).prop_flat_map(move |(nodes, adversarial, biased)| {
        prop::collection::vec(action(nodes, adversarial), 5..max_len).prop_map(move |mut actions| {
            if biased {
                let mut p = biased_prefix();
                p.append(&mut actions);
                actions = p;
            }
            // every schedule ends with a healthy period so that whatever was replicated gets
            // committed and disagreements become observable
            actions.push(Action::Heal { secs: 5 });
            Schedule { nodes, adversarial, actions }
        })
    })
}

fn case_for(which: Which, pass_b: bool) -> impl Fn(&Schedule) -> CaseResult {
    move |s: &Schedule| {
        let info = run_schedule(s, which, pass_b)?;
        let mut ci = CaseInfo::default();
        ci.evals = s.actions.len() as u64;
        ci.nontrivial = match which {
            Which::C27 => info.leaders >= 1 && info.faults >= 1,
            Which::C28 => info.appends_terms >= 2 && info.leader_changes >= 2,
            Which::C29 => info.acked >= 1 && info.leader_changes >= 2,
        };
        ci.label(if s.adversarial { "adversarial network" } else { "transport-faithful network" });
        ci.label(format!("{} nodes", s.nodes));
        if info.leaders >= 1 {
            ci.label("a leader was elected");
        }
        if info.leader_changes >= 2 {
            ci.label(">=2 leader changes");
        }
        if info.acked >= 1 {
            ci.label("an entry was committed by a leader");
        }
        if info.double_votes > 0 {
            ci.label("a node voted twice in one term");
        }
        if info.divergent_appends > 0 {
            ci.label("append accepted on a divergent prefix");
        }
        if info.old_term_commits > 0 {
            ci.label("a leader committed an entry of an earlier term");
        }
        if info.stale_quorum_commits > 0 {
            ci.label("a leader committed an entry held by fewer than a quorum");
        }
        ci.count("deliveries excluded by construction (pass B)", info.excluded);
        ci.count("requests delivered", info.delivered);
        Ok(ci)
    }
}

// ---------------------------------------------------------------------------------------
// small-scope exhaustive enumeration

fn reduced_alphabet(n: usize) -> Vec<Action> {
    let mut v = vec![];
    for node in 0..n as u8 {
        v.push(Action::Tick { node, dt: Dt::Election });
        v.push(Action::Tick { node, dt: Dt::Term });
    }
    // channel / node selectors spread over the selector space so that each non-empty channel can be picked
    for k in 0..4u16 {
        v.push(Action::Deliver { chan: k * 16384, pos: 0 });
    }
    v.push(Action::Drop { chan: 0 });
    v.push(Action::DeliverLoseResponse { chan: 0 });
    for k in 0..3u16 {
        v.push(Action::ProcessResponse { node: k * 21845, pos: 0 });
    }
    v.push(Action::Append { node: 0, data: 1 });
    v
}

fn state_hash(sim: &Sim) -> u64 {
    let mut parts: Vec<String> = vec![];
    for i in 0..sim.n {
        parts.push(format!("{:?}/{}/{:?}/{:?}/{}", sim.nodes[i].v_state(), sim.nodes[i].v_term(), sim.nodes[i].v_local(), sim.nodes[i].storage.entries, vclock::clock(i)));
    }
    for s in 0..sim.n {
        for d in 0..sim.n {
            for r in &sim.req[s][d] {
                parts.push(format!("{s}>{d}:{}:{}:{:?}:{:?}", r.v_kind(), r.v_term(), r.v_log(), r.v_entries()));
            }
        }
        for (r, resp) in &sim.resp[s] {
            parts.push(format!("{s}<{}:{}:{}", r.target, r.v_kind(), resp.v_name()));
        }
    }
    stable_hash(&parts)
}

/// depth-first enumeration of all schedules over the reduced alphabet up to `depth`, with
/// re-execution from the initial state and pruning of global states already expanded at the
/// same or a smaller depth.
fn exhaustive(ctx: &mut Ctx, which: Which, depth: usize, campaign: &str) {
    let n = 3;
    let alphabet = reduced_alphabet(n);
    let mut seen: std::collections::HashMap<u64, usize> = std::collections::HashMap::new();
    let mut stack: Vec<Vec<usize>> = vec![vec![]];
    let mut executions = 0u64;
    let mut states = 0u64;
    let mut transitions = 0u64;
    let mut sample: Option<Schedule> = None;
    let budget = ctx.tier.pick(3_000_000u64, 12_000_000u64);
    while let Some(prefix) = stack.pop() {
        if executions >= budget {
            break;
        }
        let actions: Vec<Action> = prefix.iter().map(|i| alphabet[*i].clone()).collect();
        let sched = Schedule { nodes: 3, adversarial: false, actions };
        // re-execute
        let mut sim = Sim::new(n, false);
        let mut failed = None;
        let mut noop = false;
        for a in &sched.actions {
            let before = (sim.in_flight(), sim.trace.len());
            sim.step(a);
            if sim.trace.len() == before.1 {
                noop = true; // the action was not enabled
                break;
            }
            if let Err(f) = sim.check(which) {
                failed = Some(f);
                break;
            }
        }
        executions += 1;
        if noop {
            continue;
        }
        transitions += 1;
        if let Some(f) = failed {
            ctx.evaluations += 1;
            ctx.record_failure(campaign, &sched, &f);
            continue;
        }
        let h = state_hash(&sim);
        match seen.get(&h) {
            Some(d) if *d <= prefix.len() => continue,
            _ => {
                seen.insert(h, prefix.len());
            }
        }
        states += 1;
        if sim.leaders_of_term.values().any(|s| !s.is_empty()) {
            ctx.nontrivial.insert(h);
            if sample.is_none() && prefix.len() >= 6 {
                sample = Some(sched.clone());
            }
        }
        if prefix.len() < depth {
            for i in (0..alphabet.len()).rev() {
                let mut p = prefix.clone();
                p.push(i);
                stack.push(p);
            }
        }
    }
    ctx.evaluations += executions;
    ctx.label("exhaustive: schedules executed", executions);
    ctx.label("exhaustive: distinct global states", states);
    ctx.extra.insert(
        "small_scope".into(),
        serde_json::json!({"nodes": 3, "depth": depth, "alphabet": alphabet.len(), "schedules_executed": executions, "distinct_states": states, "transitions": transitions, "budget_hit": executions >= budget, "exhaustive": executions < budget}),
    );
    if let Some(s) = sample {
        ctx.samples.push(serde_json::json!({"campaign": "exhaustive", "case": s}));
    }
}

fn safety_property(ctx: &mut Ctx, which: Which, name: &'static str, name_b: &'static str) {
    let cases = ctx.tier.pick(160_000, 1_500_000);
    let max_len = ctx.tier.pick(70usize, 250usize);
    replay_saved::<Schedule, _>(ctx, name, case_for(which, false));
    // pass A: unrestricted generator; listed known findings are counted and the campaign goes on
    run_campaign(ctx, CampaignCfg { name, cases, max_shrink_iters: 800, max_restarts: 1 }, move || schedule(max_len), case_for(which, false));
    // pass B: the triggers of the listed findings are excluded by construction (counted)
    if !ctx.known.is_empty() {
        run_campaign(ctx, CampaignCfg { name: name_b, cases, max_shrink_iters: 800, max_restarts: 1 }, move || schedule(max_len), case_for(which, true));
    }
    let depth = ctx.tier.pick(8, 10);
    exhaustive(ctx, which, depth, name);
}

// ---------------------------------------------------------------------------------------
// C30: bounded liveness on fault-free schedules

#[derive(Clone, Debug, Serialize, Deserialize)]
pub struct HealthyCase {
    pub nodes: u8,
    /// a faulty prefix (transport-faithful) executed first, then the network heals
    pub prefix: Vec<Action>,
    /// choices of the delivery order: each value picks one of the enabled network actions
    pub order: Vec<u16>,
    /// times (in units of 50 quanta = 500 ms) at which a client append is issued at the leader
    pub appends: Vec<u8>,
}

/// One fault-free round: every in-flight message and response is delivered exactly once, in the
/// generated order, until the network is quiet.
fn drain(sim: &mut Sim, order: &mut impl Iterator<Item = u16>, non_fifo: &mut bool) -> Result<(), Fail> {
    let mut guard = 0;
    loop {
        let ch = sim.channels();
        let with: Vec<usize> = (0..sim.n).filter(|i| !sim.resp[*i].is_empty()).collect();
        let total = ch.len() + with.len();
        if total == 0 {
            return Ok(());
        }
        guard += 1;
        if guard > 10_000 {
            // trigger of the listed finding: the tail of the trace is one leader re-sending an
            // Append that the same follower keeps rejecting (Cluster::reconcile has no back-off),
            // whatever makes the follower reject it
            let tail = &sim.trace[sim.trace.len().saturating_sub(60)..];
            let rejected = tail.iter().filter(|l| l.contains(" Append ") && l.ends_with("=> LogMismatch")).count();
            let cause = if rejected >= 15 { "a leader re-sends a rejected Append without pause" } else { "network never quiet" };
            return Err(Fail::new(format!("healthy cluster: message storm ({cause})"), sim.trace[sim.trace.len().saturating_sub(40)..].join("\n")));
        }
        let k = order.next().unwrap_or(0);
        let choice = pick(k, total);
        if choice != 0 {
            *non_fifo = true;
        }
        if choice < ch.len() {
            let sel = ((choice * 65536) / ch.len().max(1)) as u16 + 1;
            // pick exactly channel `choice`
            let (s, d) = ch[choice];
            let _ = sel;
            let r = sim.req[s][d].pop_front().unwrap();
            sim.trace.push(format!("deliver {s}->{d}"));
            if let Some(resp) = sim.process_request(s, d, &r) {
                sim.resp[s].push_back((r, resp));
            }
        } else {
            let s = with[choice - ch.len()];
            let (r, resp) = sim.resp[s].pop_front().unwrap();
            vclock::set_current(s);
            sim.trace.push(format!("node {s} processes response {} from {}", resp.v_name(), r.target));
            if let Ok(Some(requests)) = block_on(sim.nodes[s].response(&r, &resp)) {
                sim.enqueue(s, requests);
            }
        }
    }
}

/// trigger of the listed C30 finding: some other node's last log entry has a higher term than
/// the leader's last entry (the leader's older-term entries are then rejected for ever)
fn stale_higher_term_tail(sim: &Sim, leader: usize) -> bool {
    let (_, lt, _) = sim.nodes[leader].v_local();
    (0..sim.n).any(|i| i != leader && sim.nodes[i].v_local().1 > lt)
}

/// the server's cluster loop calls process() every 10 ms when idle
const QUANTUM: u64 = 10;
/// bound on further quanta (120 s of virtual time, 40 term timeouts); the longest convergence
/// observed in a run is reported next to it in the evidence (max_quanta_needed)
const LIVENESS_BOUND: u64 = 12_000;

fn healthy_case(c: &HealthyCase) -> Result<(CaseInfo, u64), Fail> {
    let n = (c.nodes as usize).clamp(2, 5);
    let mut sim = Sim::new(n, false);
    // the listed safety findings are excluded from the prefix so that liveness is judged from
    // states the safety properties allow
    sim.exclude_double_vote = true;
    sim.exclude_divergent_append = true;
    for a in &c.prefix {
        sim.step(a);
    }
    // heal: all clocks continue from the largest one (a global clock from now on)
    let maxc = (0..n).map(vclock::clock).max().unwrap_or(0);
    for i in 0..n {
        vclock::advance(i, maxc - vclock::clock(i));
    }
    let mut order = c.order.iter().cloned();
    let mut non_fifo = false;
    let mut appended: Vec<u8> = vec![];
    let mut pending_appends: Vec<u8> = c.appends.clone();
    pending_appends.sort();
    let mut quanta = 0u64;
    let mut needed = 0u64;
    loop {
        drain(&mut sim, &mut order, &mut non_fifo)?;
        // goal reached?
        let leaders: Vec<usize> = (0..n).filter(|i| sim.nodes[*i].v_state() == VState::Leader).collect();
        let settled = leaders.len() == 1 && (0..n).all(|i| i == leaders[0] || sim.nodes[i].v_state() == VState::Follower(leaders[0] as u64));
        if settled && pending_appends.is_empty() {
            let l = leaders[0];
            let (li, _, lc) = sim.nodes[l].v_local();
            let committed = |i: usize| -> BTreeMap<u64, (u64, u8)> { sim.nodes[i].storage.entries.iter().filter(|e| e.committed).map(|e| (e.index, (e.term, e.data))).collect() };
            let leader_committed = committed(l);
            let all_committed = li == lc
                && (1..=li).all(|k| leader_committed.contains_key(&k))
                // every node has committed exactly the leader's entries; a follower may still hold
                // a stale uncommitted entry beyond the leader's log (it is replaced by the next
                // append), which the property does not speak about
                && (0..n).all(|i| committed(i) == leader_committed);
            if all_committed {
                needed = quanta;
                break;
            }
        }
        if quanta >= LIVENESS_BOUND {
            let states: Vec<String> = (0..n)
                .map(|i| format!("node {i}: {:?} term {} log {:?} entries {:?}", sim.nodes[i].v_state(), sim.nodes[i].v_term(), sim.nodes[i].v_local(), sim.nodes[i].storage.entries.iter().map(|e| (e.index, e.term, e.data, e.committed)).collect::<Vec<_>>()))
                .collect();
            let what = if leaders.len() != 1 { "no single leader" } else if !settled { "not all nodes follow the leader" } else { "appended entries not replicated and committed everywhere" };
            let sig = if leaders.len() == 1 && stale_higher_term_tail(&sim, leaders[0]) {
                // one root cause whatever the cluster size: log reconciliation cannot repair such a follower
                format!("healthy cluster does not converge within the bound: {what} (a follower's uncommitted tail has a higher term than the leader's log)")
            } else if leaders.is_empty() && (0..n).all(|i| !matches!(sim.nodes[i].v_state(), VState::Follower(_))) {
                // one root cause whatever the cluster size: nobody leads, nobody follows, terms keep growing
                "healthy cluster does not converge within the bound: no single leader (candidate livelock: every node keeps starting elections)".to_string()
            } else {
                format!("healthy {n}-node cluster does not converge within the bound: {what}")
            };
            return Err(Fail::new(
                sig,
                format!("after {LIVENESS_BOUND} quanta of {QUANTUM} ms: {}\nlast trace:\n{}", states.join("; "), sim.trace[sim.trace.len().saturating_sub(60)..].join("\n")),
            ));
        }
        // client appends at the current leader
        while let Some(t) = pending_appends.first().cloned() {
            if (t as u64) * 50 <= quanta && settled {
                pending_appends.remove(0);
                let l = leaders[0];
                vclock::set_current(l);
                let data = appended.len() as u8 + 1;
                if let Ok(requests) = block_on(sim.nodes[l].append(data, None)) {
                    appended.push(data);
                    sim.enqueue(l, requests);
                }
            } else {
                break;
            }
        }
        // time passes for everybody; timers fire in node order
        quanta += 1;
        for i in 0..n {
            vclock::advance(i, QUANTUM);
        }
        for i in 0..n {
            vclock::set_current(i);
            if let Some(requests) = sim.nodes[i].process() {
                sim.enqueue(i, requests);
            }
        }
    }
    let mut ci = CaseInfo::default();
    ci.evals = 1;
    ci.nontrivial = appended.len() >= 2 && non_fifo;
    if !c.prefix.is_empty() {
        ci.label("started after a faulty prefix");
    }
    ci.label(format!("{n} nodes"));
    ci.count("entries appended", appended.len() as u64);
    Ok((ci, needed))
}

fn healthy() -> impl Strategy<Value = HealthyCase> {
    (prop_oneof![3 => Just(3u8), 1 => Just(5u8), 1 => Just(2u8)], any::<bool>()).prop_flat_map(|(nodes, with_prefix)| {
        (
            prop::collection::vec(action(nodes, false), if with_prefix { 5..60 } else { 0..1 }),
            prop::collection::vec(any::<u16>(), 0..400),
            prop::collection::vec(0u8..60, 0..5),
        )
            .prop_map(move |(prefix, order, appends)| HealthyCase { nodes, prefix: if with_prefix { prefix } else { vec![] }, order, appends })
    })
}

fn c30(ctx: &mut Ctx) {
    ctx.rule = format!("fault-free schedules for 2-, 3- and 5-node clusters: from the initial state or after a generated faulty prefix (loss, per-node timer skew; the deliveries that trigger the listed C27/C28 findings are excluded from the prefix) the network heals: all node clocks advance together in quanta of {QUANTUM} ms, after each quantum every node's process() runs, and every in-flight request and response is delivered exactly once in a generated order before the next quantum; client appends are issued at the settled leader at generated times. Oracle (bounded liveness, deterministic, no wall clock): within {LIVENESS_BOUND} quanta the cluster reaches a state with exactly one leader, every other node following it, and every appended entry present and committed on every node. Non-trivial: >=2 appended entries and a delivery order different from FIFO. Distinct = hash of the case. This can refute liveness within the bound, never establish it.");
    let cases = ctx.tier.pick(100_000, 600_000);
    let max_needed = std::sync::atomic::AtomicU64::new(0);
    let test = |c: &HealthyCase| -> CaseResult {
        let (ci, needed) = healthy_case(c)?;
        max_needed.fetch_max(needed, std::sync::atomic::Ordering::Relaxed);
        Ok(ci)
    };
    replay_saved::<HealthyCase, _>(ctx, "c30-healthy", &test);
    run_campaign(ctx, CampaignCfg { name: "c30-healthy", cases, max_shrink_iters: 2000, max_restarts: 3 }, healthy, &test);
    ctx.extra.insert("max_quanta_needed".into(), serde_json::json!(max_needed.load(std::sync::atomic::Ordering::Relaxed)));
    ctx.extra.insert("liveness_bound_quanta".into(), serde_json::json!(LIVENESS_BOUND));
}

// ---------------------------------------------------------------------------------------

fn usage() -> ! {
    eprintln!("usage: raftsim <C27|C28|C29|C30> [--tier quick|thorough] [--replay <file>]");
    std::process::exit(2)
}

fn main() {
    let args: Vec<String> = std::env::args().collect();
    if args.len() < 2 {
        usage();
    }
    let id = args[1].to_uppercase();
    let mut tier = match std::env::var("VERIF_TIER").as_deref() {
        Ok("thorough") => Tier::Thorough,
        _ => Tier::Quick,
    };
    let mut replay: Option<String> = None;
    let mut i = 2;
    while i < args.len() {
        match args[i].as_str() {
            "--tier" => {
                i += 1;
                tier = match args.get(i).map(|s| s.as_str()) {
                    Some("quick") => Tier::Quick,
                    Some("thorough") => Tier::Thorough,
                    _ => usage(),
                };
            }
            "--replay" => {
                i += 1;
                replay = args.get(i).cloned();
            }
            _ => usage(),
        }
        i += 1;
    }
    let seed: u64 = std::env::var("VERIF_SEED").ok().and_then(|s| s.parse::<i64>().ok()).map(|v| v as u64).unwrap_or(0);
    install_panic_hook();
    let which = match id.as_str() {
        "C27" => Some(Which::C27),
        "C28" => Some(Which::C28),
        "C29" => Some(Which::C29),
        "C30" => None,
        _ => usage(),
    };
    if let Some(path) = replay {
        let rc = match which {
            Some(w) => replay_file::<Schedule, _>(&path, case_for(w, false)),
            None => replay_file::<HealthyCase, _>(&path, |c| healthy_case(c).map(|(ci, _)| ci)),
        };
        std::process::exit(rc);
    }
    let mut ctx = Ctx::new(&id, tier, seed);
    ctx.assumptions.push("the consensus code is the repository's agdb_server/src/raft.rs compiled unmodified except for the substitution of std::time::Instant by a per-node virtual clock; the in-memory log storage mirrors ClusterStorage/ClusterLog (truncate the uncommitted suffix from the appended index, commit marks entries <= index in index order, logs(from) returns the entries after the first `from`)".into());
    ctx.assumptions.push("client appends are issued only at a node whose leader() is itself, the precondition forward_to_leader enforces in the server".into());
    match which {
        Some(Which::C27) => {
            ctx.rule = "schedules for 3-node (and sampled 5-node) clusters driving the real consensus code: per-node timer ticks (1 ms, heartbeat+1, own election timeout+1, term timeout+1), delivery of the oldest request of a generated directed channel, delivery with lost response, request loss, response processing (responses of different targets may overtake each other), client appends at believed leaders; adversarial schedules add duplication and reordering within a channel. Random schedules (proptest, biased towards: vote, expire the term timer, deliver a competing vote) plus depth-first exhaustive enumeration over a reduced alphabet with re-execution and global-state de-duplication. Oracle after every action: the set of nodes that were ever leader contains at most one node per term. evaluations = actions executed (random) + schedules executed (exhaustive). Non-trivial: >=1 leader elected and >=1 fault (loss/duplication/reordering) in the schedule. Distinct = hash of the schedule.".into();
            safety_property(&mut ctx, Which::C27, "c27-schedule", "c27-schedule-passB");
        }
        Some(Which::C28) => {
            ctx.rule = "same schedule generators as C27 with client appends at any node that currently believes it is leader (incl. stale leaders). Oracle after every action, read from the recording log storage: (a) for every index committed on two nodes the entries (term, data) are equal, (b) per node an entry once committed is never removed or replaced and the commit index never decreases, (c) commit index <= log length. Non-trivial: appends in >=2 different terms and >=2 leader changes. Distinct = hash of the schedule.".into();
            safety_property(&mut ctx, Which::C28, "c28-schedule", "c28-schedule-passB");
        }
        Some(Which::C29) => {
            ctx.rule = "same schedule generators as C28. The harness keeps the set K of (index, term, data) for which a node in Leader state has advanced its commit to that index (the acknowledgement point); whenever a node becomes leader of a term later than the one in which an element of K was committed, its log must contain that element at the same index (a node that wins an election of an earlier term only now, through delayed vote responses, is a stale leader and is not judged). Non-trivial: K non-empty and >=2 leader changes. Distinct = hash of the schedule.".into();
            safety_property(&mut ctx, Which::C29, "c29-schedule", "c29-schedule-passB");
        }
        None => c30(&mut ctx),
    }
    std::process::exit(ctx.finish());
}
