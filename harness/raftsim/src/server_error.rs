//! Stand-in for agdb_server::server_error (only what raft.rs uses).
#[derive(Debug)]
pub struct ServerError {
    pub description: String,
}
pub type ServerResult<T = ()> = Result<T, ServerError>;
