//! Per-node virtual clock substituted for std::time::Instant in the generated raft module.
use std::cell::{Cell, RefCell};
use std::time::Duration;

thread_local! {
    static CURRENT: Cell<usize> = const { Cell::new(0) };
    static CLOCKS: RefCell<Vec<u64>> = const { RefCell::new(Vec::new()) };
}

#[derive(Clone, Copy, Debug, PartialEq, Eq, PartialOrd, Ord)]
pub struct Instant(u64);

impl Instant {
    pub fn now() -> Self {
        Instant(now_ms())
    }
    pub fn elapsed(&self) -> Duration {
        Duration::from_millis(now_ms().saturating_sub(self.0))
    }
}

fn now_ms() -> u64 {
    let cur = CURRENT.with(|c| c.get());
    CLOCKS.with(|c| c.borrow().get(cur).cloned().unwrap_or(0))
}

pub fn reset(nodes: usize) {
    CLOCKS.with(|c| *c.borrow_mut() = vec![1_000_000; nodes]);
    CURRENT.with(|c| c.set(0));
}

pub fn set_current(node: usize) {
    CURRENT.with(|c| c.set(node));
}

pub fn advance(node: usize, ms: u64) {
    CLOCKS.with(|c| c.borrow_mut()[node] += ms);
}

pub fn clock(node: usize) -> u64 {
    CLOCKS.with(|c| c.borrow()[node])
}
