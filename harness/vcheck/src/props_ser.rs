//! C20 (serialization round trip + exact size), C21 (deserializing arbitrary bytes never
//! crashes), C22 (derived user types stored and read back).
use crate::core::*;
use crate::model::RefDb;
use crate::query::*;
use crate::val::*;
use crate::vgen::{self, CondProfile, Profile};
use agdb::{AgdbSerialize, DbError, DbId, DbKeyOrder, DbKeyValue, DbMemory, DbSerialize, DbType, DbTypeMarker, DbValue, QueryBuilder, QueryId, QueryResult};
use proptest::prelude::*;
use serde::{Deserialize, Serialize};
use std::net::{IpAddr, Ipv4Addr, Ipv6Addr, SocketAddr, SocketAddrV4, SocketAddrV6};
use std::path::PathBuf;
use std::time::{Duration, SystemTime, UNIX_EPOCH};

// ---------------------------------------------------------------------------------------
// corpus of derived user types

#[derive(Clone, Debug, PartialEq, DbSerialize)]
pub struct SNamed {
    pub a: u64,
    pub b: String,
    pub c: Vec<i64>,
    pub d: bool,
    pub e: f64,
}

#[derive(Clone, Debug, PartialEq, DbSerialize)]
pub struct STuple(pub i64, pub String, pub Vec<u8>);

#[derive(Clone, Debug, PartialEq, DbSerialize)]
pub struct SUnit;

#[derive(Clone, Debug, PartialEq, DbSerialize)]
pub struct SEmpty {}

/// vectors whose elements serialize to zero bytes: the element count is the only trace they leave
#[derive(Clone, Debug, PartialEq, DbSerialize)]
pub struct SUnits {
    pub tags: Vec<SUnit>,
    pub empties: Vec<SEmpty>,
    pub id: bool,
}

#[derive(Clone, Debug, PartialEq, DbSerialize)]
pub struct SGeneric<T: AgdbSerialize> {
    pub v: T,
    pub many: Vec<T>,
}

#[derive(Clone, Debug, PartialEq, DbSerialize)]
pub enum EUnit {
    A,
    B,
    C,
}

#[derive(Clone, Debug, PartialEq, DbSerialize)]
pub enum EMixed {
    Unit,
    Tuple(u64),
    Multi(String, Vec<u8>, i64),
    Struct { x: f64, y: String, z: Vec<String> },
    Nested(EUnit),
    Named(SNamed),
    List(Vec<EUnit>),
}

#[derive(Clone, Debug, PartialEq, DbSerialize)]
pub struct SNested {
    pub e: EMixed,
    pub list: Vec<EMixed>,
    pub g: SGeneric<String>,
    pub t: STuple,
    pub u: SUnit,
    pub deep: Vec<Vec<SGeneric<u64>>>,
}

fn s_named() -> impl Strategy<Value = SNamed> {
    (any_u64(), any_string(), prop::collection::vec(any_i64(), 0..5), any::<bool>(), any_f64_bits()).prop_map(|(a, b, c, d, e)| SNamed { a, b, c, d, e: f64::from_bits(e) })
}
fn s_tuple() -> impl Strategy<Value = STuple> {
    (any_i64(), any_string(), any_bytes()).prop_map(|(a, b, c)| STuple(a, b, c))
}
fn e_unit() -> impl Strategy<Value = EUnit> {
    prop::sample::select(vec![EUnit::A, EUnit::B, EUnit::C])
}
fn e_mixed() -> impl Strategy<Value = EMixed> {
    prop_oneof![
        Just(EMixed::Unit),
        any_u64().prop_map(EMixed::Tuple),
        (any_string(), any_bytes(), any_i64()).prop_map(|(a, b, c)| EMixed::Multi(a, b, c)),
        (any_f64_bits(), any_string(), prop::collection::vec(any_string(), 0..4)).prop_map(|(x, y, z)| EMixed::Struct { x: f64::from_bits(x), y, z }),
        e_unit().prop_map(EMixed::Nested),
        s_named().prop_map(EMixed::Named),
        prop::collection::vec(e_unit(), 0..5).prop_map(EMixed::List),
    ]
}
fn s_generic_string() -> impl Strategy<Value = SGeneric<String>> {
    (any_string(), prop::collection::vec(any_string(), 0..4)).prop_map(|(v, many)| SGeneric { v, many })
}
fn s_nested() -> impl Strategy<Value = SNested> {
    (
        e_mixed(),
        prop::collection::vec(e_mixed(), 0..4),
        s_generic_string(),
        s_tuple(),
        prop::collection::vec(prop::collection::vec((any_u64(), prop::collection::vec(any_u64(), 0..3)).prop_map(|(v, many)| SGeneric { v, many }), 0..3), 0..3),
    )
        .prop_map(|(e, list, g, t, deep)| SNested { e, list, g, t, u: SUnit, deep })
}

// ---------------------------------------------------------------------------------------
// type registry

type DeFn = fn(&[u8]) -> Result<(String, Vec<u8>, u64), String>;

fn de<T: AgdbSerialize + std::fmt::Debug>(b: &[u8]) -> Result<(String, Vec<u8>, u64), String> {
    match T::deserialize(b) {
        Ok(v) => Ok((format!("{v:?}"), v.serialize(), v.serialized_size())),
        Err(e) => Err(format!("{e:?}")),
    }
}

fn conv<T: TryFrom<DbValue, Error = DbError> + std::fmt::Debug>(b: &[u8]) -> Result<(String, Vec<u8>, u64), String> {
    match Vec::<T>::try_from(DbValue::Bytes(b.to_vec())) {
        Ok(v) => Ok((format!("{v:?}"), vec![], 0)),
        Err(e) => Err(format!("{e:?}")),
    }
}

fn conv_one<T: TryFrom<DbValue, Error = DbError> + std::fmt::Debug>(b: &[u8]) -> Result<(String, Vec<u8>, u64), String> {
    match T::try_from(DbValue::Bytes(b.to_vec())) {
        Ok(v) => Ok((format!("{v:?}"), vec![], 0)),
        Err(e) => Err(format!("{e:?}")),
    }
}

#[derive(Clone, Debug, PartialEq, DbSerialize, DbTypeMarker, agdb::DbValue)]
pub struct Attr {
    pub name: String,
    pub value: Vec<u64>,
}

#[derive(Clone, Debug, PartialEq, Default, DbSerialize, DbTypeMarker, agdb::DbValue)]
pub enum Status {
    Active,
    #[default]
    Inactive,
    Level(u64),
}

/// Types that only ever see their own encoding (C20): a vector of zero-byte elements read from
/// arbitrary bytes loops once per claimed element without consuming input, which C21 (arbitrary
/// bytes) would meet as a case that does not return; see DESIGN.md appendix D.
pub fn registry_own_encoding_only() -> Vec<(&'static str, DeFn)> {
    vec![("Vec<SUnit>", de::<Vec<SUnit>>), ("SUnits", de::<SUnits>)]
}

pub fn registry() -> Vec<(&'static str, DeFn)> {
    vec![
        ("i64", de::<i64>),
        ("u64", de::<u64>),
        ("f64", de::<f64>),
        ("usize", de::<usize>),
        ("bool", de::<bool>),
        ("String", de::<String>),
        ("Vec<u8>", de::<Vec<u8>>),
        ("Vec<i64>", de::<Vec<i64>>),
        ("Vec<String>", de::<Vec<String>>),
        ("Vec<Vec<u64>>", de::<Vec<Vec<u64>>>),
        ("Vec<bool>", de::<Vec<bool>>),
        ("SystemTime", de::<SystemTime>),
        ("PathBuf", de::<PathBuf>),
        ("SocketAddr", de::<SocketAddr>),
        ("IpAddr", de::<IpAddr>),
        ("DbValue", de::<DbValue>),
        ("Vec<DbValue>", de::<Vec<DbValue>>),
        ("DbKeyValue", de::<DbKeyValue>),
        ("DbId", de::<DbId>),
        ("DbKeyOrder", de::<DbKeyOrder>),
        ("QueryId", de::<QueryId>),
        ("QueryIds", de::<agdb::QueryIds>),
        ("QueryValues", de::<agdb::QueryValues>),
        ("QueryCondition", de::<agdb::QueryCondition>),
        ("Comparison", de::<agdb::Comparison>),
        ("CountComparison", de::<agdb::CountComparison>),
        ("SearchQuery", de::<agdb::SearchQuery>),
        ("QueryType", de::<agdb::QueryType>),
        ("Vec<QueryType>", de::<Vec<agdb::QueryType>>),
        ("InsertNodesQuery", de::<agdb::InsertNodesQuery>),
        ("InsertEdgesQuery", de::<agdb::InsertEdgesQuery>),
        ("InsertValuesQuery", de::<agdb::InsertValuesQuery>),
        ("SelectValuesQuery", de::<agdb::SelectValuesQuery>),
        ("SNamed", de::<SNamed>),
        ("STuple", de::<STuple>),
        ("SUnit", de::<SUnit>),
        ("SEmpty", de::<SEmpty>),
        ("SGeneric<String>", de::<SGeneric<String>>),
        ("EUnit", de::<EUnit>),
        ("EMixed", de::<EMixed>),
        ("SNested", de::<SNested>),
        ("Attr", de::<Attr>),
        ("Status", de::<Status>),
        // typed conversions of byte-array values
        ("conv Vec<i64>", conv::<i64>),
        ("conv Vec<u64>", conv::<u64>),
        ("conv Vec<f64>", conv::<f64>),
        ("conv Vec<String>", conv::<String>),
        ("conv Vec<bool>", conv_one::<Vec<bool>>),
        ("conv Vec<Attr>", conv::<Attr>),
        ("conv Vec<Status>", conv::<Status>),
        ("conv Vec<SystemTime>", conv::<SystemTime>),
        ("conv Vec<SocketAddr>", conv::<SocketAddr>),
        ("conv SystemTime", conv_one::<SystemTime>),
        ("conv Attr", conv_one::<Attr>),
    ]
}

#[derive(Clone, Debug, Serialize, Deserialize, PartialEq)]
pub struct SerCase {
    pub ty: String,
    pub bytes: Vec<u8>,
    pub size: u64,
    pub debug: String,
    pub variable: bool,
}

fn case_of<T: AgdbSerialize + std::fmt::Debug>(ty: &str, v: &T, variable: bool) -> SerCase {
    SerCase {
        ty: ty.to_string(),
        bytes: v.serialize(),
        size: v.serialized_size(),
        debug: format!("{v:?}"),
        variable,
    }
}

fn any_time() -> impl Strategy<Value = SystemTime> {
    prop_oneof![
        Just(UNIX_EPOCH),
        (0u64..4_000_000_000, 0u32..1_000_000_000).prop_map(|(s, n)| UNIX_EPOCH + Duration::new(s, n)),
        (0u64..4_000_000_000, 0u32..1_000_000_000).prop_map(|(s, n)| UNIX_EPOCH - Duration::new(s, n)),
        (0u64..(1u64 << 40), 0u32..1_000_000_000).prop_map(|(s, n)| UNIX_EPOCH.checked_add(Duration::new(s, n)).unwrap_or(UNIX_EPOCH)),
        Just(UNIX_EPOCH + Duration::new(1, 999_999_999)),
        Just(UNIX_EPOCH - Duration::new(0, 1)),
    ]
}

fn any_ip() -> impl Strategy<Value = IpAddr> {
    prop_oneof![
        any::<u32>().prop_map(|x| IpAddr::V4(Ipv4Addr::from(x))),
        any::<u128>().prop_map(|x| IpAddr::V6(Ipv6Addr::from(x))),
        any::<u32>().prop_map(|x| IpAddr::V6(Ipv4Addr::from(x).to_ipv6_mapped())),
        Just(IpAddr::V6(Ipv6Addr::UNSPECIFIED)),
        Just(IpAddr::V4(Ipv4Addr::LOCALHOST)),
    ]
}

/// Socket addresses as applications obtain them (parsed from text or from the OS): flowinfo 0.
/// `flow` selects the rarely used IPv6 flow label (counted separately, see C20 notes).
fn any_sock(flow: bool) -> impl Strategy<Value = SocketAddr> {
    prop_oneof![
        (any::<u32>(), any::<u16>()).prop_map(|(ip, p)| SocketAddr::V4(SocketAddrV4::new(Ipv4Addr::from(ip), p))),
        (any::<u128>(), any::<u16>(), prop_oneof![3 => Just(0u32), 1 => any::<u32>()], any::<u32>()).prop_map(move |(ip, p, scope, fl)| SocketAddr::V6(SocketAddrV6::new(
            Ipv6Addr::from(ip),
            p,
            if flow { fl } else { 0 },
            scope
        ))),
    ]
}

fn utf8_path() -> impl Strategy<Value = PathBuf> {
    prop_oneof![
        any_string().prop_map(PathBuf::from),
        prop::collection::vec("[a-zA-Z0-9._ -]{0,12}", 0..5).prop_map(|parts| PathBuf::from(format!("/{}", parts.join("/")))),
        Just(PathBuf::from("")),
        Just(PathBuf::from("../..")),
    ]
}

fn resolved<S: Strategy<Value = CQuery>>(s: S) -> impl Strategy<Value = CQuery> {
    s.prop_map(|q| RefDb::default().resolve(&q))
}

fn deep_search() -> impl Strategy<Value = CSearch> {
    let cp = CondProfile { distance: true, depth: 4, cross_type_ordering: true };
    (vgen::safe_search(&Profile::general(), false), vgen::cond_list(&cp, 4), prop::collection::vec((any::<bool>(), 0usize..8), 0..3)).prop_map(|(mut s, conds, order)| {
        s.conditions = conds;
        s.order_by = order.into_iter().map(|(asc, k)| (asc, key_pool()[k].clone())).collect();
        RefDb::default().resolve_search(&s)
    })
}

fn ser_case() -> BoxedStrategy<SerCase> {
    let p = Profile::general();
    let q = || resolved(prop_oneof![vgen::q_mut(&p), vgen::q_read(&p)]);
    prop_oneof![
        any_i64().prop_map(|v| case_of("i64", &v, false)),
        any_u64().prop_map(|v| case_of("u64", &v, false)),
        any_f64_bits().prop_map(|v| case_of("f64", &f64::from_bits(v), false)),
        any_u64().prop_map(|v| case_of("usize", &(v as usize), false)),
        any::<bool>().prop_map(|v| case_of("bool", &v, false)),
        any_string().prop_map(|v| case_of("String", &v, true)),
        any_bytes().prop_map(|v| case_of("Vec<u8>", &v, true)),
        prop::collection::vec(any_i64(), 0..8).prop_map(|v| case_of("Vec<i64>", &v, true)),
        prop::collection::vec(any_string(), 0..5).prop_map(|v| case_of("Vec<String>", &v, true)),
        prop::collection::vec(prop::collection::vec(any_u64(), 0..4), 0..4).prop_map(|v| case_of("Vec<Vec<u64>>", &v, true)),
        prop::collection::vec(any::<bool>(), 0..8).prop_map(|v| case_of("Vec<bool>", &v, true)),
        any_time().prop_map(|v| case_of("SystemTime", &v, false)),
        utf8_path().prop_map(|v| case_of("PathBuf", &v, true)),
        any_sock(false).prop_map(|v| case_of("SocketAddr", &v, true)),
        any_ip().prop_map(|v| case_of("IpAddr", &v, true)),
        any_val().prop_map(|v| case_of("DbValue", &v.to_db(), true)),
        prop::collection::vec(any_val(), 0..5).prop_map(|v| case_of("Vec<DbValue>", &v.iter().map(|x| x.to_db()).collect::<Vec<_>>(), true)),
        (any_val(), any_val()).prop_map(|(k, v)| case_of("DbKeyValue", &kv(&k, &v), true)),
        any_i64().prop_map(|v| case_of("DbId", &DbId(v), false)),
        (any::<bool>(), any_val()).prop_map(|(a, v)| case_of("DbKeyOrder", &if a { DbKeyOrder::Asc(v.to_db()) } else { DbKeyOrder::Desc(v.to_db()) }, true)),
        prop_oneof![any_i64().prop_map(QId::Id), any_string().prop_map(QId::Alias)].prop_map(|v| case_of("QueryId", &qid(&v), true)),
        prop_oneof![
            prop::collection::vec(prop_oneof![any_i64().prop_map(QId::Id), any_string().prop_map(QId::Alias)], 0..5).prop_map(QIds::Ids),
            deep_search().prop_map(|s| QIds::Search(Box::new(s)))
        ]
        .prop_map(|v| case_of("QueryIds", &qids(&v), true)),
        vgen::qvals(&p, 2).prop_map(|v| case_of("QueryValues", &qvals(&v), true)),
        deep_search().prop_filter_map("has condition", |s| s.conditions.first().cloned()).prop_map(|c| case_of("QueryCondition", &condition(&c), true)),
        vgen::comparison().prop_map(|c| case_of("Comparison", &cmp(&c), true)),
        vgen::count_cmp(u64::MAX).prop_map(|c| case_of("CountComparison", &count_cmp(&c), false)),
        deep_search().prop_map(|s| case_of("SearchQuery", &search(&s), true)),
        q().prop_map(|q| case_of("QueryType", &to_query_type(&q), true)),
        prop::collection::vec(q(), 0..5).prop_map(|v| case_of("Vec<QueryType>", &v.iter().map(to_query_type).collect::<Vec<_>>(), true)),
        s_named().prop_map(|v| case_of("SNamed", &v, true)),
        s_tuple().prop_map(|v| case_of("STuple", &v, true)),
        Just(case_of("SUnit", &SUnit, false)),
        Just(case_of("SEmpty", &SEmpty {}, false)),
        (0usize..40).prop_map(|n| case_of("Vec<SUnit>", &vec![SUnit; n], true)),
        (0usize..24, 0usize..24, any::<bool>()).prop_map(|(a, b, id)| case_of("SUnits", &SUnits { tags: vec![SUnit; a], empties: vec![SEmpty {}; b], id }, true)),
        s_generic_string().prop_map(|v| case_of("SGeneric<String>", &v, true)),
        e_unit().prop_map(|v| case_of("EUnit", &v, false)),
        e_mixed().prop_map(|v| case_of("EMixed", &v, true)),
        s_nested().prop_map(|v| case_of("SNested", &v, true)),
        (any_string(), prop::collection::vec(any_u64(), 0..4)).prop_map(|(name, value)| case_of("Attr", &Attr { name, value }, true)),
        prop_oneof![Just(Status::Active), Just(Status::Inactive), any_u64().prop_map(Status::Level)].prop_map(|v| case_of("Status", &v, false)),
    ]
    .boxed()
}

pub fn ser_case_pub() -> impl Strategy<Value = SerCase> {
    ser_case()
}

fn c20_case(c: &SerCase) -> CaseResult {
    let mut reg = registry();
    reg.extend(registry_own_encoding_only());
    let f = reg.iter().find(|(n, _)| *n == c.ty).map(|(_, f)| *f).ok_or_else(|| Fail::new("harness: unknown type in case", c.ty.clone()))?;
    let ty = c.ty.split('<').next().unwrap_or(&c.ty).to_string();
    if c.size != c.bytes.len() as u64 {
        return Err(Fail::new(
            format!("serialized_size differs from the bytes produced ({ty})"),
            format!("{}: serialized_size {} but {} bytes: {:?}", c.ty, c.size, c.bytes.len(), c.debug),
        ));
    }
    let r = catch(|| f(&c.bytes)).map_err(|mut e| {
        e.sig = format!("deserializing its own encoding panics ({ty}): {}", e.sig);
        e
    })?;
    match r {
        Err(e) => Err(Fail::new(format!("own encoding does not deserialize ({ty})"), format!("{}: {:?} -> {e}", c.ty, c.debug))),
        Ok((debug, bytes, size)) => {
            if debug != c.debug || bytes != c.bytes {
                return Err(Fail::new(format!("round trip yields a different value ({ty})"), format!("{}: {} became {}", c.ty, c.debug, debug)));
            }
            if size != c.size {
                return Err(Fail::new(format!("serialized_size changes over a round trip ({ty})"), format!("{}: {} vs {}", c.ty, c.size, size)));
            }
            let mut ci = CaseInfo::default();
            ci.nontrivial = c.variable;
            ci.count(format!("type {}", c.ty), 1);
            Ok(ci)
        }
    }
}

pub fn c20(ctx: &mut Ctx) {
    crate::fuzz_api::replay_raw_saved(ctx);
    ctx.rule = "arbitrary values of i64, u64, f64 (bit patterns), usize, bool, String, Vec<u8>, nested vectors, SystemTime (pre-epoch, epoch, far future, sub-second), UTF-8 PathBuf, SocketAddr/IpAddr (v4, v6, mapped, scoped), DbValue, DbKeyValue, DbId, DbKeyOrder, QueryId(s), QueryValues, conditions (nested where to depth 4), SearchQuery, every query through QueryType (built by the same grammar as the histories), and a corpus of derived user types (named / tuple / unit / empty structs, a generic struct, enums with unit / tuple / multi-field / struct variants, nested enums-in-structs-in-vectors, vectors of unit / empty structs - elements of zero bytes - alone and as a field before shorter fields). Oracle: T::deserialize(x.serialize()) is Ok and equals x (Debug text and re-serialized bytes, so floats compare bitwise) and x.serialized_size() == x.serialize().len(). Non-trivial: the value has a variable-length component. Distinct = hash of (type, bytes). IPv6 socket addresses are generated with flow label 0 (what parsing text or the OS yields; a non-zero flow label is outside the textual encoding the codec documents).".into();
    let cases = ctx.tier.pick(1_500_000, 6_000_000);
    replay_saved::<SerCase, _>(ctx, "c20-roundtrip", c20_case);
    run_campaign(ctx, CampaignCfg { name: "c20-roundtrip", cases, max_shrink_iters: 2000, max_restarts: 3 }, ser_case, c20_case);
}

pub fn c20_replay(path: &str) -> i32 {
    replay_file::<SerCase, _>(path, c20_case)
}

// ---------------------------------------------------------------------------------------
// C21

#[derive(Clone, Debug, Serialize, Deserialize)]
pub enum Mutation {
    None,
    Truncate(u16),
    /// overwrite 8 bytes at a position with a special length value
    LenAt(u16, u8),
    SetByte(u16, u8),
    FlipBit(u16, u8),
    Append(Vec<u8>),
    /// replace the whole input by random bytes
    Random(Vec<u8>),
    /// overwrite a run of bytes (position, length, value): puts several adjacent fields at a
    /// boundary value at once (all 0xff, all 0x00, all 0x80)
    Fill(u16, u8, u8),
    /// overwrite a 4-byte field at a position with a boundary value (u32 fields such as nanoseconds)
    Word32At(u16, u8),
}

#[derive(Clone, Debug, Serialize, Deserialize)]
pub struct DeCase {
    pub ty_sel: u16,
    pub base: SerCase,
    pub mutation: Mutation,
    /// further mutations applied after `mutation` (boundary values in two or three fields at once)
    #[serde(default)]
    pub more: Vec<Mutation>,
}

fn special_len(k: u8, remaining: u64, original: u64) -> u64 {
    match k % 12 {
        0 => original.wrapping_add(1),
        1 => original.wrapping_sub(1),
        2 => 1 << 31,
        3 => 1 << 56,
        4 => 1 << 63,
        5 => u64::MAX,
        6 => remaining + 1,
        7 => remaining,
        8 => u64::MAX - 7,
        9 => (1 << 32) + 1,
        10 => u64::MAX / 8,
        _ => 0,
    }
}

fn mutate(c: &DeCase) -> Vec<u8> {
    let mut b = c.base.bytes.clone();
    for m in std::iter::once(&c.mutation).chain(c.more.iter()) {
        b = mutate_one(b, m);
    }
    b
}

fn mutate_one(mut b: Vec<u8>, m: &Mutation) -> Vec<u8> {
    match m {
        Mutation::None => {}
        Mutation::Truncate(s) => {
            let n = pick(*s, b.len() + 1);
            b.truncate(n);
        }
        Mutation::LenAt(s, k) => {
            if b.len() >= 8 {
                // prefer 8-byte aligned-ish positions where length prefixes live, but allow any
                let pos = pick(*s, b.len() - 7);
                let original = u64::from_le_bytes(b[pos..pos + 8].try_into().unwrap());
                let v = special_len(*k, (b.len() - pos - 8) as u64, original);
                b[pos..pos + 8].copy_from_slice(&v.to_le_bytes());
            }
        }
        Mutation::SetByte(s, v) => {
            if !b.is_empty() {
                let pos = pick(*s, b.len());
                b[pos] = *v;
            }
        }
        Mutation::FlipBit(s, k) => {
            if !b.is_empty() {
                let pos = pick(*s, b.len());
                b[pos] ^= 1 << (k % 8);
            }
        }
        Mutation::Append(x) => b.extend(x),
        Mutation::Random(x) => b = x.clone(),
        Mutation::Fill(s, len, v) => {
            if !b.is_empty() {
                let pos = pick(*s, b.len());
                let end = (pos + 1 + *len as usize % 24).min(b.len());
                for x in &mut b[pos..end] {
                    *x = *v;
                }
            }
        }
        Mutation::Word32At(s, k) => {
            if b.len() >= 4 {
                let pos = pick(*s, b.len() - 3);
                let v: u32 = match k % 6 {
                    0 => 999_999_999,
                    1 => 1_000_000_000,
                    2 => u32::MAX,
                    3 => 1 << 31,
                    4 => 0,
                    _ => 2_000_000_000,
                };
                b[pos..pos + 4].copy_from_slice(&v.to_le_bytes());
            }
        }
    }
    b
}

fn c21_case(c: &DeCase) -> CaseResult {
    let reg = registry();
    let bytes = mutate(c);
    // the mutated encoding goes to its own type and to one generated other type
    let own = reg.iter().position(|(n, _)| *n == c.base.ty);
    let other = pick(c.ty_sel, reg.len());
    let mut ci = CaseInfo::default();
    for idx in own.into_iter().chain(std::iter::once(other)) {
        let (name, f) = reg[idx];
        let r = catch(|| f(&bytes)).map_err(|mut e| {
            let ty = name.split('<').next().unwrap_or(name);
            e.detail = format!("{} while deserializing {} bytes as {name} (base {} mutated by {:?}): {:?}", e.detail, bytes.len(), c.base.ty, (&c.mutation, &c.more), crate::core::truncate(&format!("{bytes:?}"), 600));
            e.sig = format!("deserialize panics ({ty}): {}", e.sig);
            e
        })?;
        ci.evals += 1;
        ci.count(if r.is_ok() { "decoded Ok" } else { "decoded Err" }, 1);
    }
    ci.nontrivial = !matches!(c.mutation, Mutation::Random(_));
    ci.count(
        match c.mutation {
            Mutation::None => "mutation none",
            Mutation::Truncate(_) => "mutation truncate",
            Mutation::LenAt(_, _) => "mutation length field",
            Mutation::SetByte(_, _) => "mutation set byte",
            Mutation::FlipBit(_, _) => "mutation flip bit",
            Mutation::Append(_) => "mutation append",
            Mutation::Random(_) => "random bytes",
            Mutation::Fill(_, _, _) => "mutation fill run",
            Mutation::Word32At(_, _) => "mutation 32-bit field",
        },
        1,
    );
    Ok(ci)
}

fn de_case() -> impl Strategy<Value = DeCase> {
    let mutation = prop_oneof![
        1 => Just(Mutation::None),
        4 => any::<u16>().prop_map(Mutation::Truncate),
        8 => (any::<u16>(), any::<u8>()).prop_map(|(a, b)| Mutation::LenAt(a, b)),
        3 => (any::<u16>(), prop_oneof![Just(0u8), Just(255u8), any::<u8>()]).prop_map(|(a, b)| Mutation::SetByte(a, b)),
        2 => (any::<u16>(), any::<u8>()).prop_map(|(a, b)| Mutation::FlipBit(a, b)),
        1 => prop::collection::vec(any::<u8>(), 1..20).prop_map(Mutation::Append),
        3 => (any::<u16>(), any::<u8>(), prop_oneof![Just(255u8), Just(0u8), Just(128u8)]).prop_map(|(a, l, v)| Mutation::Fill(a, l, v)),
        2 => (any::<u16>(), any::<u8>()).prop_map(|(a, b)| Mutation::Word32At(a, b)),
        1 => (0usize..40, prop_oneof![Just(255u8), Just(0u8), Just(128u8)]).prop_map(|(n, v)| Mutation::Random(vec![v; n])),
        3 => prop::collection::vec(any::<u8>(), 0..64).prop_map(Mutation::Random),
        1 => prop::collection::vec(prop_oneof![Just(0u8), Just(255u8), Just(1u8), any::<u8>()], 0..512).prop_map(Mutation::Random),
    ];
    let more = prop_oneof![
        3 => Just(vec![]),
        2 => prop::collection::vec(
            prop_oneof![
                (any::<u16>(), any::<u8>()).prop_map(|(a, b)| Mutation::LenAt(a, b)),
                (any::<u16>(), any::<u8>()).prop_map(|(a, b)| Mutation::Word32At(a, b)),
                (any::<u16>(), any::<u8>(), prop_oneof![Just(255u8), Just(0u8), Just(128u8)]).prop_map(|(a, l, v)| Mutation::Fill(a, l, v)),
                (any::<u16>(), prop_oneof![Just(0u8), Just(255u8), any::<u8>()]).prop_map(|(a, b)| Mutation::SetByte(a, b)),
            ],
            1..3
        ),
    ];
    (any::<u16>(), ser_case(), mutation, more).prop_map(|(ty_sel, base, mutation, more)| DeCase { ty_sel, base, mutation, more })
}

pub fn c21(ctx: &mut Ctx) {
    crate::fuzz_api::replay_raw_saved(ctx);
    ctx.rule = "valid encodings of every C20 type mutated by: truncation at a generated offset, overwriting 8 bytes at a generated offset with a boundary length (len+-1, 2^31, 2^32+1, 2^56, 2^63, u64::MAX, u64::MAX-7, u64::MAX/8, remaining, remaining+1, 0), setting a byte (0, 255, random; reaches enum variant bytes), flipping a bit, appending junk, filling a run of 1..24 bytes with 0xff/0x00/0x80 (several adjacent fields at a boundary at once), overwriting a 32-bit field with boundary values (10^9-1, 10^9, 2^31, u32::MAX), optionally followed by one or two further mutations; plus random byte strings of 0..512 bytes. Every input is fed to the deserializer of its own type and to one other generated type out of 54 (all built-in and derived deserializers and the typed conversions of byte-array values: Vec<i64|u64|f64|String|bool|derived value types|SystemTime|SocketAddr>::try_from(DbValue::Bytes)). Cases run in isolated child processes with a 64 MiB single-allocation cap. Oracle: every call returns Ok or Err - no panic, abort or enormous allocation request. evaluations = deserializer calls. Non-trivial: the input is a mutated valid encoding. Distinct = hash of the case.".into();
    let cases = ctx.tier.pick(150_000, 1_500_000);
    replay_saved::<DeCase, _>(ctx, "c21-deserialize", c21_case);
    run_campaign(ctx, CampaignCfg { name: "c21-deserialize", cases, max_shrink_iters: 1500, max_restarts: 3 }, de_case, c21_case);
}

pub fn c21_replay(path: &str) -> i32 {
    replay_file::<DeCase, _>(path, c21_case)
}

// ---------------------------------------------------------------------------------------
// C22: derived DbType / DbElement types

#[derive(Clone, Debug, PartialEq, DbType)]
pub struct TPlain {
    pub db_id: Option<DbId>,
    pub name: String,
    pub age: u64,
    pub signed: i64,
    pub small_i: i32,
    pub small_u: u32,
    pub ratio: f64,
    pub small_f: f32,
    pub flag: bool,
}

#[derive(Clone, Debug, PartialEq, DbType)]
pub struct TVecs {
    pub db_id: Option<QueryId>,
    pub bytes: Vec<u8>,
    pub ints: Vec<i64>,
    pub uints: Vec<u64>,
    pub floats: Vec<f64>,
    pub strings: Vec<String>,
    pub bools: Vec<bool>,
    pub small: Vec<i32>,
}

#[derive(Clone, Debug, PartialEq, DbType)]
pub struct TOpt {
    pub db_id: DbId,
    pub name: Option<String>,
    pub value: Option<u64>,
    pub list: Option<Vec<i64>>,
    pub attr: Option<Attr>,
}

#[derive(Clone, Debug, PartialEq, Default, DbType)]
pub struct TCustom {
    pub status: Status,
    pub statuses: Vec<Status>,
    pub attrs: Vec<Attr>,
    pub one: Attr2,
}

#[derive(Clone, Debug, PartialEq, Default, DbSerialize, DbTypeMarker, agdb::DbValue)]
pub struct Attr2 {
    pub k: String,
    pub v: i64,
}

#[derive(Clone, Debug, PartialEq, DbType)]
pub struct TNoId {
    pub title: String,
    pub count: u64,
}

#[derive(Clone, Debug, PartialEq, DbType)]
pub struct TFlat {
    pub db_id: Option<DbId>,
    pub category: String,
    #[agdb(flatten)]
    pub inner: TNoId,
    #[agdb(rename = "renamed_count")]
    pub count2: u64,
    #[agdb(skip)]
    pub skipped: Vec<String>,
}

#[derive(Clone, Debug, PartialEq, agdb::DbElement)]
pub struct EUser {
    pub db_id: Option<DbId>,
    pub name: String,
    pub age: u64,
}

#[derive(Clone, Debug, PartialEq, agdb::DbElement)]
pub struct EOrg {
    pub db_id: Option<DbId>,
    pub name: String,
    pub members: Vec<String>,
}

/// optional fields in the middle of the field list, followed by a mandatory one
#[derive(Clone, Debug, PartialEq, DbType)]
pub struct TOptMid {
    pub db_id: Option<DbId>,
    pub first: String,
    pub nickname: Option<String>,
    pub score: Option<i64>,
    pub last: u64,
}

/// the optional field comes first, no id field
#[derive(Clone, Debug, PartialEq, DbType)]
pub struct TOptFirst {
    pub opt: Option<u64>,
    pub name: String,
}

/// the optional field is the last stored field but a skipped field follows it
#[derive(Clone, Debug, PartialEq, DbType)]
pub struct TOptSkip {
    pub db_id: Option<DbId>,
    pub name: String,
    pub opt: Option<Vec<String>>,
    #[agdb(skip)]
    pub skipped: u64,
}

/// optional fields that are also renamed
#[derive(Clone, Debug, PartialEq, DbType)]
pub struct TRenOpt {
    pub db_id: Option<DbId>,
    #[agdb(rename = "nick")]
    pub nickname: Option<String>,
    pub plain: String,
    #[agdb(rename = "cnt")]
    pub count: Option<u64>,
}

/// element type with an optional field before a mandatory one
#[derive(Clone, Debug, PartialEq, agdb::DbElement)]
pub struct ENote {
    pub db_id: Option<DbId>,
    pub note: Option<String>,
    pub name: String,
}

fn attr() -> impl Strategy<Value = Attr> {
    (any_string(), prop::collection::vec(any_u64(), 0..4)).prop_map(|(name, value)| Attr { name, value })
}
fn status() -> impl Strategy<Value = Status> {
    prop_oneof![Just(Status::Active), Just(Status::Inactive), any_u64().prop_map(Status::Level)]
}
fn finite_f32() -> impl Strategy<Value = f32> {
    prop_oneof![any::<u32>().prop_map(f32::from_bits), Just(0.0f32), Just(-0.0f32), Just(f32::MAX), Just(f32::MIN_POSITIVE)]
}

#[derive(Clone, Debug, Serialize, Deserialize)]
pub struct TypeCase {
    pub kind: u8,
    /// seeds for the values (the concrete structs are rebuilt deterministically from them)
    pub seeds: Vec<u64>,
    pub batch: u8,
    pub update_sel: u16,
}

fn build<T: std::fmt::Debug, S: Strategy<Value = T>>(s: S, seed: u64) -> T {
    let mut runner = det_runner(derive_seed(seed, &[0xC22]));
    new_tree_value(&s, &mut runner)
}

fn eq_debug<T: std::fmt::Debug>(a: &T, b: &T) -> bool {
    format!("{a:?}") == format!("{b:?}")
}

/// What an update through `insert().element()` leaves untouched: fields that are `None` in the
/// new value are omitted from the query (documented), so the element keeps the old value.
pub trait KeepOnUpdate {
    fn keep_omitted(&mut self, _old: &Self) {}
}
impl KeepOnUpdate for TPlain {}
impl KeepOnUpdate for TVecs {}
impl KeepOnUpdate for TCustom {}
impl KeepOnUpdate for TNoId {}
impl KeepOnUpdate for TFlat {}
impl KeepOnUpdate for EUser {}
impl KeepOnUpdate for EOrg {}
impl KeepOnUpdate for TOptFirst {}
impl KeepOnUpdate for TRenOpt {
    fn keep_omitted(&mut self, old: &Self) {
        if self.nickname.is_none() {
            self.nickname = old.nickname.clone();
        }
        if self.count.is_none() {
            self.count = old.count;
        }
    }
}
impl KeepOnUpdate for TOptMid {
    fn keep_omitted(&mut self, old: &Self) {
        if self.nickname.is_none() {
            self.nickname = old.nickname.clone();
        }
        if self.score.is_none() {
            self.score = old.score;
        }
    }
}
impl KeepOnUpdate for TOptSkip {
    fn keep_omitted(&mut self, old: &Self) {
        if self.opt.is_none() {
            self.opt = old.opt.clone();
        }
    }
}
impl KeepOnUpdate for ENote {
    fn keep_omitted(&mut self, old: &Self) {
        if self.note.is_none() {
            self.note = old.note.clone();
        }
    }
}
impl KeepOnUpdate for TOpt {
    fn keep_omitted(&mut self, old: &Self) {
        if self.name.is_none() {
            self.name = old.name.clone();
        }
        if self.value.is_none() {
            self.value = old.value;
        }
        if self.list.is_none() {
            self.list = old.list.clone();
        }
        if self.attr.is_none() {
            self.attr = old.attr.clone();
        }
    }
}

/// Generic round trip for one derived type: insert singly and in batches, select back through
/// every documented route, update one element through its db_id and check that only it changed.
fn roundtrip_type<T, FS, FI, FG>(c: &TypeCase, make: FS, set_id: FI, get_id: FG, has_id: bool, element_type: bool) -> CaseResult
where
    T: KeepOnUpdate,
    T: DbType<ValueType = T> + Clone + std::fmt::Debug,
    FS: Fn(u64) -> T,
    FI: Fn(&mut T, DbId),
    FG: Fn(&T) -> Option<DbId>,
    for<'a> &'a T: DbType,
{
    let mut db = DbMemory::new("c22").map_err(|e| Fail::new("harness: DbMemory::new", format!("{e:?}")))?;
    let ty = std::any::type_name::<T>().rsplit("::").next().unwrap_or("?").to_string();
    // unrelated elements of an overlapping type so that updates have something to damage
    db.exec_mut(QueryBuilder::insert().nodes().values([[("name", "bystander").into(), ("age", 1_u64).into(), ("title", "t").into(), ("count", 3_u64).into()]]).query())
        .map_err(|e| Fail::new("harness: setup", format!("{e:?}")))?;
    let mut values: Vec<T> = c.seeds.iter().map(|s| make(*s)).collect();
    if values.is_empty() {
        values.push(make(1));
    }
    let mut ids: Vec<DbId> = vec![];
    let fail = |what: &str, detail: String| Fail::new(format!("derived type {what} ({ty})"), detail);
    // insert: first value singly, the rest as a batch (or each singly)
    let first = values[0].clone();
    let r = catch(|| db.exec_mut(QueryBuilder::insert().nodes().values(&first).query()))?.map_err(|e| fail("insert failed", format!("{first:?}: {e:?}")))?;
    ids.push(r.elements[0].id);
    if values.len() > 1 {
        if c.batch % 2 == 0 {
            let rest: Vec<T> = values[1..].to_vec();
            let r = catch(|| db.exec_mut(QueryBuilder::insert().nodes().values(&rest).query()))?.map_err(|e| fail("batch insert failed", format!("{rest:?}: {e:?}")))?;
            ids.extend(r.elements.iter().map(|e| e.id));
        } else {
            for v in &values[1..] {
                let r = catch(|| db.exec_mut(QueryBuilder::insert().element(v).query()))?.map_err(|e| fail("insert().element failed", format!("{v:?}: {e:?}")))?;
                match r.elements.first() {
                    Some(e) => ids.push(e.id),
                    None => return Err(fail("insert().element returned no element", format!("{v:?}"))),
                }
            }
        }
    }
    if ids.len() != values.len() {
        return Err(fail("insert returned the wrong number of elements", format!("{} values, ids {ids:?}", values.len())));
    }
    for (v, id) in values.iter_mut().zip(&ids) {
        if has_id {
            set_id(v, *id);
        }
    }
    let check_all = |db: &DbMemory, values: &[T], stage: &str| -> Result<(), Fail> {
        // route 1: select().elements::<T>().ids(..)
        let r: QueryResult = catch(|| db.exec(QueryBuilder::select().elements::<T>().ids(ids.clone()).query()))?.map_err(|e| fail("select().elements failed", format!("{stage}: {e:?}")))?;
        let got: Vec<T> = catch(|| r.clone().try_into())?.map_err(|e: DbError| fail("conversion from the query result failed", format!("{stage}: {e:?}\nresult {r:?}")))?;
        if got.len() != values.len() || got.iter().zip(values).any(|(a, b)| !eq_debug(a, b)) {
            return Err(fail("read back differs", format!("{stage}\n stored {values:?}\n read   {got:?}")));
        }
        // route 2: select().values(T::db_keys()).ids(..)
        let r: QueryResult = catch(|| db.exec(QueryBuilder::select().values(T::db_keys()).ids(ids.clone()).query()))?.map_err(|e| fail("select by db_keys failed", format!("{stage}: {e:?}")))?;
        let got2: Vec<T> = catch(|| r.clone().try_into())?.map_err(|e: DbError| fail("conversion from the query result failed", format!("{stage} (db_keys): {e:?}")))?;
        if got2.iter().zip(values).any(|(a, b)| !eq_debug(a, b)) {
            return Err(fail("read back by db_keys differs", format!("{stage}\n stored {values:?}\n read   {got2:?}")));
        }
        Ok(())
    };
    check_all(&db, &values, "after insert")?;
    if element_type {
        // typed search returns only this type
        let r: QueryResult = catch(|| db.exec(QueryBuilder::select().elements::<T>().search().elements().query()))?.map_err(|e| fail("typed search failed", format!("{e:?}")))?;
        let found: Vec<i64> = r.elements.iter().map(|e| e.id.0).collect();
        let mut want: Vec<i64> = ids.iter().map(|i| i.0).collect();
        want.sort();
        let mut f2 = found.clone();
        f2.sort();
        if f2 != want {
            return Err(fail("typed search returns other elements", format!("expected {want:?} got {found:?}")));
        }
    }
    // update one element through its db_id
    let mut ci = CaseInfo::default();
    if has_id {
        let k = pick(c.update_sel, values.len());
        let before_others: Vec<(DbId, Vec<DbKeyValue>)> = {
            let r = db.exec(QueryBuilder::select().search().elements().query()).map_err(|e| fail("dump failed", format!("{e:?}")))?;
            r.elements.into_iter().filter(|e| e.id != ids[k]).map(|e| (e.id, e.values)).collect()
        };
        let mut updated = make(c.seeds.get(k).cloned().unwrap_or(1).wrapping_mul(31).wrapping_add(7));
        set_id(&mut updated, ids[k]);
        if get_id(&updated) != Some(ids[k]) {
            return Err(fail("db_id() does not report the id field", format!("{updated:?}")));
        }
        catch(|| db.exec_mut(QueryBuilder::insert().element(&updated).query()))?.map_err(|e| fail("update through db_id failed", format!("{updated:?}: {e:?}")))?;
        // a `None` field is omitted when saving (documented), so the stored key keeps its value
        updated.keep_omitted(&values[k]);
        values[k] = updated;
        check_all(&db, &values, "after update through db_id")?;
        let after_others: Vec<(DbId, Vec<DbKeyValue>)> = {
            let r = db.exec(QueryBuilder::select().search().elements().query()).map_err(|e| fail("dump failed", format!("{e:?}")))?;
            r.elements.into_iter().filter(|e| e.id != ids[k]).map(|e| (e.id, e.values)).collect()
        };
        if before_others != after_others {
            return Err(fail("update through db_id changed another element", format!("before {before_others:?}\nafter {after_others:?}")));
        }
        ci.label("updated through db_id");
    }
    ci.evals = values.len() as u64;
    ci.count(format!("type {ty}"), values.len() as u64);
    Ok(ci)
}

fn t_plain(seed: u64) -> TPlain {
    build(
        (any_string(), any_u64(), any_i64(), any::<i32>(), any::<u32>(), any_f64_bits(), finite_f32(), any::<bool>()).prop_map(|(name, age, signed, small_i, small_u, ratio, small_f, flag)| TPlain {
            db_id: None,
            name,
            age,
            signed,
            small_i,
            small_u,
            ratio: f64::from_bits(ratio),
            small_f,
            flag,
        }),
        seed,
    )
}

fn t_vecs(seed: u64) -> TVecs {
    build(
        (
            any_bytes(),
            prop::collection::vec(any_i64(), 0..4),
            prop::collection::vec(any_u64(), 0..4),
            prop::collection::vec(any_f64_bits(), 0..4),
            prop::collection::vec(any_string(), 0..3),
            prop::collection::vec(any::<bool>(), 0..5),
            prop::collection::vec(any::<i32>(), 0..4),
        )
            .prop_map(|(bytes, ints, uints, floats, strings, bools, small)| TVecs { db_id: None, bytes, ints, uints, floats: floats.into_iter().map(f64::from_bits).collect(), strings, bools, small }),
        seed,
    )
}

fn t_opt(seed: u64) -> TOpt {
    build(
        (prop::option::of(any_string()), prop::option::of(any_u64()), prop::option::of(prop::collection::vec(any_i64(), 0..3)), prop::option::of(attr())).prop_map(|(name, value, list, attr)| TOpt { db_id: DbId(0), name, value, list, attr }),
        seed,
    )
}

fn t_custom(seed: u64) -> TCustom {
    build(
        (status(), prop::collection::vec(status(), 0..4), prop::collection::vec(attr(), 0..3), (any_string(), any_i64())).prop_map(|(status, statuses, attrs, (k, v))| TCustom { status, statuses, attrs, one: Attr2 { k, v } }),
        seed,
    )
}

fn t_flat(seed: u64) -> TFlat {
    build(
        (any_string(), any_string(), any_u64(), any_u64()).prop_map(|(category, title, count, count2)| TFlat { db_id: None, category, inner: TNoId { title, count }, count2, skipped: vec![] }),
        seed,
    )
}

fn c22_case(c: &TypeCase) -> CaseResult {
    let mut ci = match c.kind % 13 {
        0 => roundtrip_type::<TPlain, _, _, _>(c, t_plain, |v, id| v.db_id = Some(id), |v| v.db_id, true, false),
        1 => roundtrip_type::<TVecs, _, _, _>(
            c,
            t_vecs,
            |v, id| v.db_id = Some(QueryId::Id(id)),
            |v| match &v.db_id {
                Some(QueryId::Id(i)) => Some(*i),
                _ => None,
            },
            true,
            false,
        ),
        2 => roundtrip_type::<TOpt, _, _, _>(c, t_opt, |v, id| v.db_id = id, |v| Some(v.db_id), true, false),
        3 => roundtrip_type::<TCustom, _, _, _>(c, t_custom, |_, _| {}, |_| None, false, false),
        4 => roundtrip_type::<TNoId, _, _, _>(c, |s| build((any_string(), any_u64()).prop_map(|(title, count)| TNoId { title, count }), s), |_, _| {}, |_| None, false, false),
        5 => roundtrip_type::<TFlat, _, _, _>(c, t_flat, |v, id| v.db_id = Some(id), |v| v.db_id, true, false),
        6 => roundtrip_type::<EUser, _, _, _>(c, |s| build((any_string(), any_u64()).prop_map(|(name, age)| EUser { db_id: None, name, age }), s), |v, id| v.db_id = Some(id), |v| v.db_id, true, true),
        7 => roundtrip_type::<EOrg, _, _, _>(
            c,
            |s| build((any_string(), prop::collection::vec(any_string(), 0..3)).prop_map(|(name, members)| EOrg { db_id: None, name, members }), s),
            |v, id| v.db_id = Some(id),
            |v| v.db_id,
            true,
            true,
        ),
        8 => roundtrip_type::<TOptMid, _, _, _>(
            c,
            |s| build((any_string(), prop::option::of(any_string()), prop::option::of(any_i64()), any_u64()).prop_map(|(first, nickname, score, last)| TOptMid { db_id: None, first, nickname, score, last }), s),
            |v, id| v.db_id = Some(id),
            |v| v.db_id,
            true,
            false,
        ),
        9 => roundtrip_type::<TOptFirst, _, _, _>(c, |s| build((prop::option::of(any_u64()), any_string()).prop_map(|(opt, name)| TOptFirst { opt, name }), s), |_, _| {}, |_| None, false, false),
        10 => roundtrip_type::<TOptSkip, _, _, _>(
            c,
            |s| build((any_string(), prop::option::of(prop::collection::vec(any_string(), 0..3))).prop_map(|(name, opt)| TOptSkip { db_id: None, name, opt, skipped: 0 }), s),
            |v, id| v.db_id = Some(id),
            |v| v.db_id,
            true,
            false,
        ),
        11 => roundtrip_type::<TRenOpt, _, _, _>(
            c,
            |s| build((prop::option::of(any_string()), any_string(), prop::option::of(any_u64())).prop_map(|(nickname, plain, count)| TRenOpt { db_id: None, nickname, plain, count }), s),
            |v, id| v.db_id = Some(id),
            |v| v.db_id,
            true,
            false,
        ),
        _ => roundtrip_type::<ENote, _, _, _>(
            c,
            |s| build((prop::option::of(any_string()), any_string()).prop_map(|(note, name)| ENote { db_id: None, note, name }), s),
            |v, id| v.db_id = Some(id),
            |v| v.db_id,
            true,
            true,
        ),
    }?;
    ci.nontrivial = c.seeds.len() >= 2 || matches!(c.kind % 13, 1 | 2 | 3 | 8 | 9 | 10 | 11 | 12);
    Ok(ci)
}

pub fn c22(ctx: &mut Ctx) {
    ctx.rule = "a corpus of 13 derived types (DbType with db_id as Option<DbId> / Option<QueryId> / DbId / absent; optional fields first, in the middle, last, before a skipped field, and renamed; every supported scalar incl. i32/u32/f32/bool; String; all vector types incl. Vec<bool> and Vec<i32>; Option fields of scalars, vectors and custom values; nested custom value types through DbValue+DbSerialize derive and vectors of them through DbTypeMarker; flatten, rename, skip; three DbElement types) with arbitrary field values (None options, empty vectors, boundary strings, float bit patterns), 1-5 values per case in a database that also holds an unrelated element with overlapping keys. Inserted singly (insert().nodes().values(&v), insert().element(&v)) and in batches, read back through select().elements::<T>().ids(..) and select().values(T::db_keys()).ids(..) + try_into; one element is updated through its db_id. Oracle: every value reads back equal (Debug text, floats exact incl. f32 through f64), the update changes exactly that element (all other elements byte-identical), DbElement typed searches return only that type. evaluations = values stored. Non-trivial: >=2 values in the case or a type with vectors / options / custom values. Distinct = hash of the case.".into();
    let cases = ctx.tier.pick(60_000, 600_000);
    replay_saved::<TypeCase, _>(ctx, "c22-types", c22_case);
    run_campaign(
        ctx,
        CampaignCfg { name: "c22-types", cases, max_shrink_iters: 1500, max_restarts: 3 },
        || (0u8..13, prop::collection::vec(any::<u64>(), 1..5), any::<u8>(), any::<u16>()).prop_map(|(kind, seeds, batch, update_sel)| TypeCase { kind, seeds, batch, update_sel }),
        c22_case,
    );
}

pub fn c22_replay(path: &str) -> i32 {
    replay_file::<TypeCase, _>(path, c22_case)
}
