//! C31: every node applies committed actions once each and in log order (DESIGN 3/C31).
//! A real 3-node cluster of server processes. One follower is killed, a generated sequence of
//! order-sensitive actions is committed by the remaining majority, the follower is restarted
//! and receives all of them at once; a source hook (H4) in the task that executes a committed
//! action traces every execution and delays it by a generated plan, so that the harness - not
//! the scheduler - decides which task would finish first if nothing ordered them.
use crate::core::*;
use crate::vserver::*;
use proptest::prelude::*;
use serde::{Deserialize, Serialize};
use serde_json::{Value, json};
use std::collections::BTreeMap;
use std::path::PathBuf;
use std::process::{Child, Command, Stdio};
use std::time::{Duration, Instant};

#[derive(Clone, Debug, Serialize, Deserialize)]
pub enum Act {
    AddUser(u8),
    ChangePassword(u8),
    AddDb(u8, u8, u8),
    Insert(u8, u8, u8),
    RenameDb(u8, u8, u8),
    CopyDb(u8, u8, u8),
    ShareDb(u8, u8, u8),
    DeleteDb(u8, u8),
    DeleteUser(u8),
}

#[derive(Clone, Debug, Serialize, Deserialize)]
pub struct ClusterCase {
    pub actions: Vec<Act>,
    /// delay in ms of the task executing log index i is delays[i % len]
    pub delays: Vec<u16>,
}

struct Node {
    dir: PathBuf,
    port: u16,
    child: Option<Child>,
    trace: PathBuf,
}

impl Node {
    fn spawn(&mut self, delays: Option<&str>) {
        let bin = server_binary();
        if !bin.exists() {
            harness_fail(&format!("server binary {} not built", bin.display()));
        }
        let mut cmd = Command::new(&bin);
        cmd.current_dir(&self.dir).stdout(Stdio::null()).stderr(Stdio::null()).env("AGDB_VERIF_EXEC_TRACE", &self.trace);
        if let Some(d) = delays {
            cmd.env("AGDB_VERIF_EXEC_DELAYS", d);
        }
        self.child = Some(cmd.spawn().unwrap_or_else(|e| harness_fail(&format!("cannot spawn server: {e}"))));
    }
    fn kill(&mut self) {
        if let Some(mut c) = self.child.take() {
            let _ = c.kill();
            let _ = c.wait();
        }
    }
    fn alive(&mut self) -> bool {
        match &mut self.child {
            Some(c) => matches!(c.try_wait(), Ok(None)),
            None => false,
        }
    }
    fn call(&self, method: &str, path: &str, token: Option<&str>, body: Option<&Value>) -> Option<Resp> {
        let b = body.map(|v| v.to_string());
        http_request(self.port, method, path, token, b.as_deref(), 8).ok()
    }
}

struct Procs {
    nodes: Vec<Node>,
    _root: TempDir,
}

impl Drop for Procs {
    fn drop(&mut self) {
        for n in &mut self.nodes {
            n.kill();
        }
    }
}

fn start_cluster(n: usize) -> Procs {
    let root = TempDir::new("c31");
    let mut ports: Vec<u16> = vec![];
    while ports.len() < n {
        let p = free_port();
        if !ports.contains(&p) {
            ports.push(p);
        }
    }
    let cluster: Vec<String> = ports.iter().map(|p| format!("http://127.0.0.1:{p}")).collect();
    let mut nodes = vec![];
    for (i, port) in ports.iter().enumerate() {
        let dir = root.0.join(format!("node{i}"));
        std::fs::create_dir_all(&dir).expect("node dir");
        let cfg = format!(
            "bind: 127.0.0.1:{port}\naddress: http://127.0.0.1:{port}\nadmin: admin\ndata_dir: agdb_server_data\nlog_level: OFF\ncluster_token: verif\ncluster_heartbeat_timeout_ms: 300\ncluster_term_timeout_ms: 1500\ncluster_election_factor_ms: 400\ncluster: [{}]\n",
            cluster.join(", ")
        );
        std::fs::write(dir.join("agdb_server.yaml"), cfg).expect("config");
        let mut node = Node { trace: dir.join("exec-trace.txt"), dir, port: *port, child: None };
        node.spawn(None);
        nodes.push(node);
    }
    Procs { nodes, _root: root }
}

/// index of the node every answering node reports as leader
fn leader_of(p: &Procs, skip: Option<usize>) -> Option<usize> {
    let mut seen: Option<usize> = None;
    for (i, n) in p.nodes.iter().enumerate() {
        if Some(i) == skip {
            continue;
        }
        let r = n.call("GET", "/api/v1/cluster/status", None, None)?;
        if r.status != 200 {
            return None;
        }
        let st = r.json();
        let leaders: Vec<usize> = st.as_array()?.iter().enumerate().filter(|(_, s)| s["leader"].as_bool() == Some(true)).map(|(k, _)| k).collect();
        if leaders.len() != 1 {
            return None;
        }
        match seen {
            None => seen = Some(leaders[0]),
            Some(l) if l == leaders[0] => {}
            _ => return None,
        }
    }
    seen
}

fn wait_leader(p: &Procs, skip: Option<usize>, secs: u64) -> Option<usize> {
    let start = Instant::now();
    while start.elapsed() < Duration::from_secs(secs) {
        if let Some(l) = leader_of(p, skip) {
            return Some(l);
        }
        std::thread::sleep(Duration::from_millis(150));
    }
    None
}

const PW: &str = "password123";

fn user(k: u8) -> String {
    format!("user{}", k % 2)
}
fn dbn(k: u8) -> String {
    format!("db{}", k % 2)
}

/// everything observable about a node's replicated state
fn observe(n: &Node, token: &str) -> Option<Value> {
    let users = n.call("GET", "/api/v1/admin/user/list", Some(token), None)?;
    if users.status != 200 {
        return None;
    }
    let mut ul: Vec<String> = users.json().as_array()?.iter().filter_map(|u| u["username"].as_str().map(|s| s.to_string())).collect();
    ul.sort();
    let dbs = n.call("GET", "/api/v1/admin/db/list", Some(token), None)?;
    if dbs.status != 200 {
        return None;
    }
    let mut out: BTreeMap<String, Value> = BTreeMap::new();
    for d in dbs.json().as_array()? {
        let (owner, db) = (d["owner"].as_str()?.to_string(), d["db"].as_str()?.to_string());
        let q = json!([{"Search": {"algorithm": "Elements", "origin": {"Id": 0}, "destination": {"Id": 0}, "limit": 0, "offset": 0, "order_by": [], "conditions": []}}]);
        let r = n.call("POST", &format!("/api/v1/admin/db/{owner}/{db}/exec"), Some(token), Some(&q))?;
        let ids: Value = if r.status == 200 { r.json()[0]["elements"].as_array().map(|e| json!(e.iter().map(|x| x["id"].clone()).collect::<Vec<_>>())).unwrap_or(Value::Null) } else { json!(format!("status {}", r.status)) };
        let ur = n.call("GET", &format!("/api/v1/admin/db/{owner}/{db}/user/list"), Some(token), None)?;
        let mut roles: Vec<String> = ur.json().as_array().cloned().unwrap_or_default().iter().map(|u| format!("{}:{}", u["username"].as_str().unwrap_or("?"), u["role"].as_str().unwrap_or("?"))).collect();
        roles.sort();
        out.insert(format!("{owner}/{db}"), json!({"type": d["db_type"], "elements": ids, "roles": roles}));
    }
    Some(json!({"users": ul, "dbs": out}))
}

fn c31_case(c: &ClusterCase) -> CaseResult {
    let mut p = start_cluster(3);
    let mut ci = CaseInfo::default();
    let fail_h = |what: &str| Fail::new(format!("harness: {what}"), String::new());
    let leader = match wait_leader(&p, None, 40) {
        Some(l) => l,
        None => {
            // no leader within 40 s of wall clock on a loaded machine: not a verdict about C31
            ci.label("undecided: the cluster did not elect a leader in time");
            return Ok(ci);
        }
    };
    let late = (0..3).rev().find(|i| *i != leader).unwrap();
    let login = |n: &Node| -> Option<String> {
        let r = n.call("POST", "/api/v1/user/login", None, Some(&json!({"username": "admin", "password": "admin"})))?;
        if r.status == 200 { r.json().as_str().map(|s| s.to_string()) } else { None }
    };
    let token = {
        let start = Instant::now();
        loop {
            if let Some(t) = login(&p.nodes[leader]) {
                break t;
            }
            if start.elapsed() > Duration::from_secs(20) {
                ci.label("undecided: admin login not possible in time");
                return Ok(ci);
            }
            std::thread::sleep(Duration::from_millis(200));
        }
    };
    // let the late node execute what it has (the login), then stop it while it is idle
    std::thread::sleep(Duration::from_millis(1200));
    p.nodes[late].kill();
    let trace_before = std::fs::read_to_string(&p.nodes[late].trace).unwrap_or_default();
    // the majority commits the generated actions
    let mut trace: Vec<String> = vec![];
    let mut accepted = 0usize;
    for a in &c.actions {
        let l = &p.nodes[leader];
        let (method, path, body): (&str, String, Option<Value>) = match a {
            Act::AddUser(u) => ("POST", format!("/api/v1/admin/user/{}/add", user(*u)), Some(json!({"password": PW}))),
            Act::ChangePassword(u) => ("PUT", format!("/api/v1/admin/user/{}/change_password", user(*u)), Some(json!({"password": format!("{PW}x")}))),
            Act::AddDb(u, d, k) => ("POST", format!("/api/v1/admin/db/{}/{}/add?db_type={}", user(*u), dbn(*d), ["memory", "mapped", "file"][*k as usize % 3]), None),
            Act::Insert(u, d, k) => (
                "POST",
                format!("/api/v1/admin/db/{}/{}/exec_mut", user(*u), dbn(*d)),
                Some(json!([{"InsertNodes": {"count": (*k % 3) as u64 + 1, "values": {"Single": []}, "aliases": [], "ids": {"Ids": []}}}])),
            ),
            Act::RenameDb(u, d, e) => ("POST", format!("/api/v1/admin/db/{}/{}/rename?new_owner={}&new_db={}", user(*u), dbn(*d), user(*u), dbn(*e)), None),
            Act::CopyDb(u, d, e) => ("POST", format!("/api/v1/admin/db/{}/{}/copy?new_owner={}&new_db={}", user(*u), dbn(*d), user(*u), dbn(*e)), None),
            Act::ShareDb(u, d, v) => ("PUT", format!("/api/v1/admin/db/{}/{}/user/{}/add?db_role=write", user(*u), dbn(*d), user(*v)), None),
            Act::DeleteDb(u, d) => ("DELETE", format!("/api/v1/admin/db/{}/{}/delete", user(*u), dbn(*d)), None),
            Act::DeleteUser(u) => ("DELETE", format!("/api/v1/admin/user/{}/delete", user(*u)), None),
        };
        let r = match l.call(method, &path, Some(&token), body.as_ref()) {
            Some(r) => r,
            None => return Err(fail_h("leader does not answer")),
        };
        trace.push(format!("{method} {path} -> {}", r.status));
        if r.ok() {
            accepted += 1;
        }
    }
    let expected = match observe(&p.nodes[leader], &token) {
        Some(v) => v,
        None => return Err(fail_h("cannot observe the leader")),
    };
    // the late node comes back and receives everything at once
    let delays: Vec<String> = c.delays.iter().map(|d| d.to_string()).collect();
    let plan = delays.join(",");
    p.nodes[late].spawn(if c.delays.is_empty() { None } else { Some(plan.as_str()) });
    let start = Instant::now();
    let mut last: Option<Value> = None;
    let mut caught_up = false;
    let mut late_token: Option<String> = None;
    while start.elapsed() < Duration::from_secs(40) {
        std::thread::sleep(Duration::from_millis(300));
        if !p.nodes[late].alive() {
            return Err(Fail::new("restarted node exited", format!("{}", trace.join("\n"))));
        }
        // tokens are local to the node that issued them
        if late_token.is_none() {
            late_token = login(&p.nodes[late]);
        }
        let Some(lt) = late_token.clone() else { continue };
        if let Some(v) = observe(&p.nodes[late], &lt) {
            if v == expected {
                caught_up = true;
                // everything may be there before the slowest delayed task has finished
                std::thread::sleep(Duration::from_millis(c.delays.iter().cloned().max().unwrap_or(0) as u64 + 300));
                last = observe(&p.nodes[late], &lt);
                break;
            }
            last = Some(v);
        }
    }
    // oracle A: the execution trace of the restarted node
    let full = std::fs::read_to_string(&p.nodes[late].trace).unwrap_or_default();
    let second = &full[trace_before.len().min(full.len())..];
    let events: Vec<(bool, u64)> = second.lines().filter_map(|l| l.split_once(' ').and_then(|(w, i)| i.trim().parse().ok().map(|i| (w == "start", i)))).collect();
    let mut started: BTreeMap<u64, usize> = BTreeMap::new();
    for (is_start, i) in &events {
        if *is_start {
            *started.entry(*i).or_default() += 1;
        }
    }
    let before_idx: Vec<u64> = trace_before.lines().filter_map(|l| l.strip_prefix("start ").and_then(|i| i.trim().parse().ok())).collect();
    let detail = |what: &str| format!("{what}\nrequests at the leader:\n{}\nexecution trace of the restarted node (delay plan {plan}):\n{second}\nexecuted before the restart: {before_idx:?}\nexpected state {expected}\nstate of the restarted node {}", trace.join("\n"), last.clone().unwrap_or(Value::Null));
    if let Some((i, n)) = started.iter().find(|(_, n)| **n > 1) {
        return Err(Fail::new("a committed action was executed more than once", detail(&format!("log index {i} started {n} times"))));
    }
    if let Some(i) = started.keys().find(|i| before_idx.contains(i)) {
        return Err(Fail::new("a committed action was executed again after a restart", detail(&format!("log index {i}"))));
    }
    // sequential: start i, end i, start j, end j ... with increasing indexes
    let mut open: Option<u64> = None;
    let mut last_idx = 0u64;
    for (is_start, i) in &events {
        if *is_start {
            if let Some(o) = open {
                return Err(Fail::new("committed actions executed concurrently", detail(&format!("execution of log index {i} started before the execution of {o} had ended"))));
            }
            if *i < last_idx {
                return Err(Fail::new("committed actions executed out of log order", detail(&format!("log index {i} started after {last_idx}"))));
            }
            open = Some(*i);
            last_idx = *i;
        } else if open == Some(*i) {
            open = None;
        }
    }
    // oracle B: same committed log, same state - judged only once the restarted node has executed
    // every index the leader has executed; a node that is still catching up when the wall-clock
    // limit expires (loaded machine) is an undecided case, not a verdict
    let ended = |text: &str| -> std::collections::BTreeSet<u64> { text.lines().filter_map(|l| l.strip_prefix("end ").and_then(|i| i.trim().parse().ok())).collect() };
    let leader_done = ended(&std::fs::read_to_string(&p.nodes[leader].trace).unwrap_or_default());
    let late_done = ended(&full);
    if !caught_up && !leader_done.is_subset(&late_done) {
        ci.label("undecided: the restarted node had not executed every committed action within 40 s");
        return Ok(ci);
    }
    if !caught_up || last.as_ref() != Some(&expected) {
        // A difference is a verdict only between two *settled* states. `expected` was read from
        // the leader right after its last answer, and an observation is several requests: either
        // side may have been read while an action (deleting a user with its databases, say) was
        // still being executed. Both nodes are therefore read again until two consecutive
        // observations of each agree; only a difference that persists then is reported. Nodes
        // that do not settle within the limit leave the case undecided.
        let Some(lt) = late_token.clone() else {
            return Err(Fail::new("restarted node cannot be observed", detail("no login at the restarted node within 40 s")));
        };
        let settle_start = Instant::now();
        let mut prev: Option<(Option<Value>, Option<Value>)> = None;
        let mut settled: Option<(Value, Value)> = None;
        while settle_start.elapsed() < Duration::from_secs(20) {
            let now = (observe(&p.nodes[leader], &token), observe(&p.nodes[late], &lt));
            if let (Some(a), Some(b)) = (&now.0, &now.1) {
                if prev.as_ref() == Some(&now) {
                    settled = Some((a.clone(), b.clone()));
                    break;
                }
            }
            prev = Some(now);
            std::thread::sleep(Duration::from_millis(800));
        }
        match settled {
            None => {
                ci.label("undecided: the two nodes' states did not settle within the limit");
                return Ok(ci);
            }
            Some((a, b)) if a != b => {
                return Err(Fail::new(
                    "restarted node ends in a different state than the leader",
                    detail(&format!("settled states differ (both read twice, unchanged)\nleader now: {a}\nrestarted node now: {b}\nfirst reading of the leader")),
                ));
            }
            Some(_) => {
                ci.label("states agreed only after both nodes had settled (first reading was taken mid-execution)");
            }
        }
    }
    let executed = started.len();
    let non_monotone = c.delays.windows(2).any(|w| w[0] > w[1]);
    ci.evals = executed.max(1) as u64;
    ci.nontrivial = executed >= 2 && non_monotone && accepted >= 2;
    ci.count("actions executed by the restarted node while catching up", executed as u64);
    ci.count("requests accepted by the leader", accepted as u64);
    if non_monotone {
        ci.label("delay plan would reorder unordered tasks");
    }
    Ok(ci)
}

fn cluster_case() -> impl Strategy<Value = ClusterCase> {
    let act = prop_oneof![
        3 => (0u8..2).prop_map(Act::AddUser),
        1 => (0u8..2).prop_map(Act::ChangePassword),
        4 => (0u8..2, 0u8..2, 0u8..3).prop_map(|(u, d, k)| Act::AddDb(u, d, k)),
        5 => (0u8..2, 0u8..2, 0u8..3).prop_map(|(u, d, k)| Act::Insert(u, d, k)),
        2 => (0u8..2, 0u8..2, 0u8..2).prop_map(|(u, d, e)| Act::RenameDb(u, d, e)),
        1 => (0u8..2, 0u8..2, 0u8..2).prop_map(|(u, d, e)| Act::CopyDb(u, d, e)),
        1 => (0u8..2, 0u8..2, 0u8..2).prop_map(|(u, d, v)| Act::ShareDb(u, d, v)),
        1 => (0u8..2, 0u8..2).prop_map(|(u, d)| Act::DeleteDb(u, d)),
        1 => (0u8..2).prop_map(Act::DeleteUser),
    ];
    (prop::collection::vec(act, 2..9), prop::collection::vec(prop_oneof![Just(0u16), Just(5), Just(25), Just(80), Just(200)], 2..6)).prop_map(|(mut actions, delays)| {
        // a useful start: a user and a database exist, so that later actions depend on earlier ones
        actions.insert(0, Act::AddUser(0));
        actions.insert(1, Act::AddDb(0, 0, 1));
        ClusterCase { actions, delays }
    })
}

pub fn c31(ctx: &mut Ctx) {
    ctx.rule = "a real 3-node cluster of freshly built server processes; once a leader exists one follower is killed while idle, a generated sequence of 4-10 order-sensitive actions (add user, change password, add / rename / copy / share / delete database, insert nodes, delete user; each later action may depend on an earlier one) is committed by the remaining majority, then the follower is restarted and receives all entries at once. A source hook in the task that executes a committed action writes a start and an end line per log index and delays the task by a generated plan (0-200 ms by log index), so tasks that nothing orders finish in the order the plan dictates. Oracle: in the restarted node's trace every index starts once, never again after a restart, executions do not overlap and indexes increase; and its observable state (users, databases, roles, element ids per database) becomes equal to the leader's. evaluations = actions executed by the restarted node. Non-trivial: >=2 actions executed while catching up, >=2 requests accepted, and a delay plan that is not non-decreasing. Distinct = hash of the case.".into();
    ctx.assumptions.push("real processes and the wall clock: a cluster that elects no leader within 40 s on a loaded machine is an undecided case, never a violation".into());
    let cases = ctx.tier.pick(32, 500);
    let saved = ctx.workers;
    ctx.workers = (saved / 2).max(2).min(8);
    replay_saved::<ClusterCase, _>(ctx, "c31-cluster", c31_case);
    run_campaign(ctx, CampaignCfg { name: "c31-cluster", cases, max_shrink_iters: 12, max_restarts: 1 }, cluster_case, c31_case);
    ctx.workers = saved;
    ctx.undecided += ctx.labels.iter().filter(|(k, _)| k.contains("undecided")).map(|(_, v)| *v).sum::<u64>();
}

pub fn c31_replay(path: &str) -> i32 {
    replay_file::<ClusterCase, _>(path, c31_case)
}
