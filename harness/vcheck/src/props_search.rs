//! C14..C18: graph searches against the reference traversal / evaluator / metamorphic relations.
use crate::core::*;
use crate::exec::*;
use crate::hist::*;
use crate::model::*;
use crate::query::*;
use crate::val::*;
use crate::vgen::{self, CondProfile, Profile, Step};
use agdb::DbMemory;
use proptest::prelude::*;
use serde::{Deserialize, Serialize};
use std::collections::{BTreeMap, BTreeSet, BinaryHeap};

#[derive(Clone, Debug, Serialize, Deserialize)]
pub struct SearchCase {
    pub history: Vec<Step>,
    pub searches: Vec<CSearch>,
}

pub fn graph_profile() -> Profile {
    let mut p = Profile::general();
    p.w_insert_nodes = 10;
    p.w_insert_edges = 22;
    p.w_insert_values = 12;
    p.w_insert_nodes_ids = 1;
    p.w_insert_edges_ids = 2;
    p.w_insert_aliases = 3;
    p.w_remove = 7;
    p.w_remove_values = 1;
    p.w_remove_aliases = 0;
    p.w_insert_index = 0;
    p.w_remove_index = 0;
    p.w_reads = 0;
    p.invalid_pct = 3;
    p.wild_values = false;
    p
}

fn build(history: &[Step]) -> Result<(RefDb, DbMemory, HistInfo), Fail> {
    let mut model = RefDb::default();
    let mut db = catch(|| DbMemory::new("verif-mem"))?.map_err(|e| Fail::new("harness: cannot create DbMemory", format!("{e:?}")))?;
    let mut info = HistInfo::default();
    let opts = HistOpts {
        dump_every: 0,
        check_after_failure: true,
    };
    run_history(&mut model, &mut db, history, &opts, &mut info)?;
    Ok((model, db, info))
}

fn run_search(db: &DbMemory, s: &CSearch) -> Result<Result<Vec<i64>, String>, Fail> {
    let q = CQuery::Search(s.clone());
    let r = catch(|| run_read(db, &q)).map_err(|mut f| {
        f.detail = format!("{} while executing {s:?}", f.detail);
        f
    })?;
    Ok(match r {
        Ok(r) => Ok(r.elements.iter().map(|e| e.id.0).collect()),
        Err(e) => Err(format!("{e:?}")),
    })
}

fn origin_strategy() -> BoxedStrategy<QId> {
    prop_oneof![5 => any::<u16>().prop_map(QId::SelNode), 3 => any::<u16>().prop_map(QId::SelEdge), 1 => any::<u16>().prop_map(QId::SelAlias)].boxed()
}

fn traversal(origin: BoxedStrategy<QId>) -> BoxedStrategy<CSearch> {
    (origin, any::<bool>(), any::<bool>())
        .prop_map(|(o, dfs, reverse)| {
            let mut s = if reverse { CSearch::to(o) } else { CSearch::from(o) };
            if dfs {
                s.algo = Algo::Dfs;
            }
            s
        })
        .boxed()
}

fn reachable(m: &RefDb, origin: i64, reverse: bool) -> BTreeSet<i64> {
    let mut seen = BTreeSet::new();
    let mut stack = vec![origin];
    while let Some(x) = stack.pop() {
        if seen.insert(x) {
            stack.extend(m.next_elems(x, reverse));
        }
    }
    seen
}

fn bfs_distances(m: &RefDb, origin: i64, reverse: bool) -> BTreeMap<i64, u64> {
    let mut d = BTreeMap::new();
    let mut q = std::collections::VecDeque::new();
    q.push_back((origin, 0u64));
    while let Some((x, k)) = q.pop_front() {
        if d.contains_key(&x) {
            continue;
        }
        d.insert(x, k);
        for n in m.next_elems(x, reverse) {
            q.push_back((n, k + 1));
        }
    }
    d
}

/// Oracle for one unconditional traversal. The exact reference sequence decides; the
/// predicates only name what went wrong.
fn check_traversal(m: &RefDb, s: &CSearch, actual: &Result<Vec<i64>, String>) -> Result<bool, Fail> {
    let rs = m.resolve_search(s);
    let reverse = rs.origin == QId::Id(0);
    let o = if reverse { &rs.destination } else { &rs.origin };
    let origin = match o {
        QId::Id(i) if m.exists(*i) => *i,
        QId::Alias(a) if m.aliases.contains_key(a) => m.aliases[a],
        _ => {
            return match actual {
                Err(_) => Ok(false),
                Ok(v) => Err(Fail::new("traversal: unknown origin accepted", format!("{rs:?} returned {v:?}"))),
            };
        }
    };
    let expected = m.traverse(origin, rs.algo == Algo::Bfs, reverse, &[]);
    let got = match actual {
        Ok(v) => v,
        Err(e) => return Err(Fail::new("traversal: rejected", format!("{rs:?} failed: {e}"))),
    };
    if *got != expected {
        let reach = reachable(m, origin, reverse);
        let got_set: BTreeSet<i64> = got.iter().cloned().collect();
        let kind = if origin < 0 { "edge origin" } else { "node origin" };
        let what = if got.first() != Some(&origin) {
            "origin not first"
        } else if got_set.len() != got.len() {
            "duplicates"
        } else if !got_set.is_subset(&reach) {
            "returns elements that are not reachable"
        } else if got_set != reach {
            "misses reachable elements"
        } else if rs.algo == Algo::Bfs {
            let d = bfs_distances(m, origin, reverse);
            if got.windows(2).any(|w| d[&w[0]] > d[&w[1]]) {
                "bfs distances decrease"
            } else {
                "order within a level"
            }
        } else {
            "dfs order"
        };
        return Err(Fail::new(
            format!("traversal ({kind}): {what}"),
            format!("{rs:?}\n expected {expected:?}\n got      {got:?}"),
        ));
    }
    let nontrivial = origin < 0
        || (expected.len() >= 4
            && expected.iter().any(|e| *e > 0 && m.next_elems(*e, reverse).len() >= 2));
    Ok(nontrivial)
}

fn replay_case<F: Fn(&SearchCase) -> CaseResult>(path: &str, f: F) -> i32 {
    replay_file::<SearchCase, _>(path, f)
}

// ---------------------------------------------------------------------------------------
// C14

fn c14_case(c: &SearchCase) -> CaseResult {
    let (m, db, info) = build(&c.history)?;
    let mut ci = CaseInfo::default();
    info.export(&mut ci);
    for s in &c.searches {
        let rs = m.resolve_search(s);
        let actual = run_search(&db, &rs)?;
        let nt = check_traversal(&m, &rs, &actual)?;
        ci.evals += 1;
        if nt {
            ci.sub_nontrivial.push(hash_json(&(&c.history, s)));
        }
        let o = if rs.origin == QId::Id(0) { &rs.destination } else { &rs.origin };
        ci.count(
            format!(
                "{} {} from {}",
                if rs.algo == Algo::Bfs { "bfs" } else { "dfs" },
                if rs.origin == QId::Id(0) { "reverse" } else { "forward" },
                match o {
                    QId::Id(i) if *i < 0 => "edge",
                    QId::Id(_) => "node",
                    _ => "alias",
                }
            ),
            1,
        );
    }
    if m.stats.ids_reused > 0 {
        ci.label("graph built with id reuse");
    }
    Ok(ci)
}

/// Exhaustive small scope: all multigraphs with n nodes and exactly m edges (as insertion
/// sequences, so every insertion order is covered) x every origin x {bfs,dfs} x {from,to}.
fn c14_small_scope(ctx: &mut Ctx, max_nodes: usize, max_edges: usize) {
    let mut graphs: Vec<(usize, Vec<(usize, usize)>)> = vec![];
    for n in 1..=max_nodes {
        for m in 0..=max_edges {
            let pairs = n * n;
            let total = pairs.pow(m as u32);
            for code in 0..total {
                let mut c = code;
                let mut edges = vec![];
                for _ in 0..m {
                    let p = c % pairs;
                    c /= pairs;
                    edges.push((p / n, p % n));
                }
                graphs.push((n, edges));
            }
        }
    }
    let workers = ctx.workers.max(1);
    let chunks: Vec<Vec<(usize, Vec<(usize, usize)>)>> = (0..workers)
        .map(|w| graphs.iter().skip(w).step_by(workers).cloned().collect())
        .collect();
    struct Out {
        evals: u64,
        nontrivial: Vec<u64>,
        fails: Vec<(SearchCase, Fail)>,
        sample: Option<SearchCase>,
    }
    let outs: Vec<Out> = std::thread::scope(|sc| {
        let hs: Vec<_> = chunks
            .iter()
            .map(|chunk| {
                sc.spawn(move || {
                    let mut out = Out {
                        evals: 0,
                        nontrivial: vec![],
                        fails: vec![],
                        sample: None,
                    };
                    for (n, edges) in chunk {
                        let mut history = vec![Step::Q(CQuery::InsertNodes {
                            count: *n as u64,
                            values: QVals::Single(vec![]),
                            aliases: vec![],
                            ids: QIds::Ids(vec![]),
                        })];
                        for (a, b) in edges {
                            history.push(Step::Q(CQuery::InsertEdges {
                                from: QIds::Ids(vec![QId::Id(*a as i64 + 1)]),
                                to: QIds::Ids(vec![QId::Id(*b as i64 + 1)]),
                                ids: QIds::Ids(vec![]),
                                values: QVals::Single(vec![]),
                                each: false,
                            }));
                        }
                        let built = build(&history);
                        let (m, db, _) = match built {
                            Ok(x) => x,
                            Err(f) => {
                                out.fails.push((SearchCase { history, searches: vec![] }, f));
                                continue;
                            }
                        };
                        for id in m.all_ids() {
                            for (dfs, reverse) in [(false, false), (false, true), (true, false), (true, true)] {
                                let mut s = if reverse { CSearch::to(QId::Id(id)) } else { CSearch::from(QId::Id(id)) };
                                if dfs {
                                    s.algo = Algo::Dfs;
                                }
                                out.evals += 1;
                                let r = run_search(&db, &s).and_then(|a| check_traversal(&m, &s, &a));
                                match r {
                                    Ok(nt) => {
                                        if nt {
                                            out.nontrivial.push(hash_json(&(&history, &s)));
                                            if out.sample.is_none() && edges.len() >= 3 {
                                                out.sample = Some(SearchCase {
                                                    history: history.clone(),
                                                    searches: vec![s.clone()],
                                                });
                                            }
                                        }
                                    }
                                    Err(f) => {
                                        // keep one failing case per signature per worker
                                        if !out.fails.iter().any(|(_, g)| g.sig == f.sig) {
                                            out.fails.push((
                                                SearchCase {
                                                    history: history.clone(),
                                                    searches: vec![s.clone()],
                                                },
                                                f,
                                            ));
                                        }
                                    }
                                }
                            }
                        }
                    }
                    out
                })
            })
            .collect();
        hs.into_iter().map(|h| h.join().unwrap()).collect()
    });
    let mut total = 0;
    for o in outs {
        total += o.evals;
        ctx.evaluations += o.evals;
        ctx.nontrivial.extend(o.nontrivial);
        if let Some(s) = o.sample {
            if ctx.samples.len() < 3 {
                ctx.samples.push(serde_json::json!({"campaign": "c14-small-scope", "case": s}));
            }
        }
        for (case, f) in o.fails {
            ctx.record_failure("c14-search", &case, &f);
        }
    }
    ctx.label("small-scope graphs enumerated", graphs.len() as u64);
    ctx.label("small-scope searches", total);
    ctx.extra.insert(
        "small_scope".into(),
        serde_json::json!({"max_nodes": max_nodes, "max_edges": max_edges, "graphs": graphs.len(), "searches": total, "exhaustive": true}),
    );
}

pub fn c14(ctx: &mut Ctx) {
    ctx.rule = "(i) exhaustive small scope: every multigraph with <=N nodes and <=M edges as an edge-insertion sequence (self-loops, parallel edges, every insertion order) x every origin (node or edge) x {bfs,dfs} x {from,to}; (ii) random multigraphs built by generated histories with removals and id reuse, random origins at nodes, edges and aliases. Oracle: the result equals the reference traversal sequence exactly (textbook BFS / pre-order DFS over the element graph, newest connection first). Non-trivial: the origin is an edge, or the result has >=4 elements and contains a node with >=2 outgoing (resp. incoming) edges. Distinct = hash of (graph history, search).".into();
    let (n, m) = ctx.tier.pick((3, 3), (3, 4));
    replay_saved::<SearchCase, _>(ctx, "c14-search", c14_case);
    if ctx.runs_once_here() {
        c14_small_scope(ctx, n, m);
        if ctx.tier == Tier::Thorough {
            c14_small_scope(ctx, 4, 3);
        }
    }
    let cases = ctx.tier.pick(40_000, 400_000);
    let (lo, hi) = ctx.tier.pick((10, 60), (10, 90));
    run_campaign(
        ctx,
        CampaignCfg {
            name: "c14-search",
            cases,
            max_shrink_iters: 3000,
            max_restarts: 3,
        },
        move || {
            (vgen::history(&graph_profile(), lo, hi), prop::collection::vec(traversal(origin_strategy()), 5..=5))
                .prop_map(|(history, searches)| SearchCase { history, searches })
        },
        c14_case,
    );
}

pub fn c14_replay(path: &str) -> i32 {
    replay_case(path, c14_case)
}

// ---------------------------------------------------------------------------------------
// C15

fn cond_search(cp: CondProfile, with_elements: bool) -> BoxedStrategy<CSearch> {
    let cp2 = CondProfile {
        distance: false,
        ..cp.clone()
    };
    let trav = (traversal(any::<u16>().prop_map(QId::SelNode).boxed()), vgen::cond_list(&cp, cp.depth)).prop_map(|(mut s, c)| {
        s.conditions = c;
        s
    });
    if with_elements {
        let elems = vgen::cond_list(&cp2, cp2.depth).prop_map(|c| {
            let mut s = CSearch::elements();
            s.conditions = c;
            s
        });
        prop_oneof![5 => trav, 1 => elems].boxed()
    } else {
        trav.boxed()
    }
}

fn uses_interesting(conds: &[CCond]) -> bool {
    conds.iter().any(|c| {
        c.modifier != Modifier::None
            || matches!(c.data, CData::Where(_))
            || match &c.data {
                CData::Where(w) => uses_interesting(w),
                _ => false,
            }
    })
}

fn has_type_mismatch(m: &RefDb, conds: &[CCond]) -> bool {
    conds.iter().any(|c| match &c.data {
        CData::KeyValue(k, cmp) => {
            let operand = cmp_value(cmp);
            m.values
                .values()
                .any(|v| v.iter().any(|(kk, vv)| kk == k && vv.variant() != operand.variant()))
        }
        CData::Where(w) => has_type_mismatch(m, w),
        _ => false,
    })
}

fn c15_case(c: &SearchCase) -> CaseResult {
    let (m, db, info) = build(&c.history)?;
    let mut ci = CaseInfo::default();
    info.export(&mut ci);
    for s in &c.searches {
        let rs = m.resolve_search(s);
        let actual = run_search(&db, &rs)?;
        let expected = m.search(&rs);
        ci.evals += 1;
        match (&expected, &actual) {
            (Err(_), Err(_)) => {}
            (Ok(e), Ok(a)) => {
                if e != a {
                    let es: BTreeSet<i64> = e.iter().cloned().collect();
                    let as_: BTreeSet<i64> = a.iter().cloned().collect();
                    let what = if es == as_ {
                        "order differs"
                    } else if as_.is_superset(&es) {
                        "selects elements the reference rejects"
                    } else if as_.is_subset(&es) {
                        "misses elements the reference selects"
                    } else {
                        "different element set"
                    };
                    let cross = vgen::has_cross_type_ordering(&rs.conditions) && has_type_mismatch(&m, &rs.conditions);
                    return Err(Fail::new(
                        format!("conditions: {what}{}", if cross { " (ordering comparison across value types)" } else { "" }),
                        format!("{rs:?}\n expected {e:?}\n got      {a:?}"),
                    ));
                }
                let plain = {
                    let mut p = rs.clone();
                    p.conditions = vec![];
                    m.search(&p).unwrap_or_default()
                };
                if (uses_interesting(&rs.conditions) || has_type_mismatch(&m, &rs.conditions)) && plain != *e {
                    ci.sub_nontrivial.push(hash_json(&(&c.history, s)));
                }
            }
            (Err(r), Ok(a)) => {
                return Err(Fail::new("conditions: search accepted although it must fail", format!("{rs:?} expected Err({r}) got {a:?}")));
            }
            (Ok(e), Err(r)) => {
                return Err(Fail::new("conditions: search rejected", format!("{rs:?} expected {e:?} got Err({r})")));
            }
        }
        label_conds(&mut ci, &rs.conditions);
    }
    Ok(ci)
}

fn label_conds(ci: &mut CaseInfo, conds: &[CCond]) {
    for c in conds {
        let d = match &c.data {
            CData::Distance(_) => "distance",
            CData::Edge => "edge",
            CData::EdgeCount(_) => "edge_count",
            CData::EdgeCountFrom(_) => "edge_count_from",
            CData::EdgeCountTo(_) => "edge_count_to",
            CData::Ids(_) => "ids",
            CData::KeyValue(_, _) => "key_value",
            CData::Keys(_) => "keys",
            CData::Node => "node",
            CData::Where(w) => {
                label_conds(ci, w);
                "where"
            }
        };
        ci.count(format!("cond {d}"), 1);
        if c.modifier != Modifier::None {
            ci.count(format!("modifier {:?}", c.modifier), 1);
        }
        if c.logic == Logic::Or {
            ci.count("logic or", 1);
        }
    }
}

pub fn c15(ctx: &mut Ctx) {
    ctx.rule = "random property-bearing multigraphs (values from a pool mixing i64 5, u64 5, f64 5.0, \"5\", bytes and vectors under the same keys) x random condition trees (depth <=3, 1-4 conditions per level, every condition kind, every modifier, both logic operators, every comparison operator with operands from the same mixed pool, ids by id and alias) x {bfs,dfs} x {from,to} and elements search (without distance); the exact result sequence is compared with the reference evaluator + reference traversal. Non-trivial: the tree has a modifier, a nested where, or a key-value comparison whose operand type differs from a stored value's type under that key, AND the result differs from the condition-free search. Distinct = hash of (graph history, search).".into();
    let cases = ctx.tier.pick(50_000, 500_000);
    let (lo, hi) = ctx.tier.pick((10, 50), (10, 80));
    let cp = CondProfile {
        distance: true,
        depth: 2,
        cross_type_ordering: true,
    };
    replay_saved::<SearchCase, _>(ctx, "c15-search", c15_case);
    run_campaign(
        ctx,
        CampaignCfg {
            name: "c15-search",
            cases,
            max_shrink_iters: 3000,
            max_restarts: 3,
        },
        move || {
            (vgen::history(&graph_profile(), lo, hi), prop::collection::vec(cond_search(cp.clone(), true), 8..=8))
                .prop_map(|(history, searches)| SearchCase { history, searches })
        },
        c15_case,
    );
}

pub fn c15_replay(path: &str) -> i32 {
    replay_case(path, c15_case)
}

// ---------------------------------------------------------------------------------------
// C16

fn sliced_search() -> BoxedStrategy<CSearch> {
    let cp = CondProfile {
        distance: true,
        depth: 1,
        cross_type_ordering: true,
    };
    let cp_nodist = CondProfile {
        distance: false,
        depth: 1,
        cross_type_ordering: true,
    };
    let base = prop_oneof![
        6 => traversal(any::<u16>().prop_map(QId::SelNode).boxed()),
        2 => Just(CSearch::elements()),
        3 => (any::<u16>(), any::<u16>()).prop_map(|(a, b)| {
            let mut s = CSearch::from(QId::SelNode(a));
            s.destination = QId::SelNode(b);
            s
        }),
    ];
    (
        base,
        prop_oneof![3 => Just(vec![]), 1 => vgen::cond_list(&cp, 1), 1 => vgen::cond_list(&cp_nodist, 1)],
        0u16..=u16::MAX,
        0u16..=u16::MAX,
        prop::collection::vec((any::<bool>(), 0usize..8), 0..=3),
        0u8..4,
    )
        .prop_map(|(mut s, conds, off, lim, order, mode)| {
            let is_path = s.origin != QId::Id(0) && s.destination != QId::Id(0);
            s.conditions = if s.algo == Algo::Elements || is_path {
                conds.into_iter().filter(|c| !has_distance(c)).collect()
            } else {
                conds
            };
            // offset / limit are selectors into 0..n+3 resolved once n is known
            s.offset = off as u64;
            s.limit = lim as u64;
            s.order_by = if mode == 0 {
                vec![]
            } else {
                order.into_iter().map(|(asc, k)| (asc, key_pool()[k].clone())).collect()
            };
            s
        })
        .boxed()
}

fn has_distance(c: &CCond) -> bool {
    match &c.data {
        CData::Distance(_) => true,
        CData::Where(w) => w.iter().any(has_distance),
        _ => false,
    }
}

fn c16_case(c: &SearchCase) -> CaseResult {
    let (m, db, info) = build(&c.history)?;
    let mut ci = CaseInfo::default();
    info.export(&mut ci);
    for s in &c.searches {
        let mut rs = m.resolve_search(s);
        let (off_sel, lim_sel) = (rs.offset as u16, rs.limit as u16);
        // unsliced, unordered base result
        let mut base_q = rs.clone();
        base_q.offset = 0;
        base_q.limit = 0;
        base_q.order_by = vec![];
        let base = match run_search(&db, &base_q)? {
            Ok(v) => v,
            Err(_) => continue, // unknown origin etc.: nothing to slice
        };
        let n = base.len();
        rs.offset = pick(off_sel, n + 4) as u64;
        rs.limit = pick(lim_sel, n + 4) as u64;
        // expected unsliced (ordered) result
        let mut full = base.clone();
        if !rs.order_by.is_empty() {
            m.sort_ids(&mut full, &rs.order_by);
            let mut ordered_q = rs.clone();
            ordered_q.offset = 0;
            ordered_q.limit = 0;
            ci.evals += 1;
            match run_search(&db, &ordered_q)? {
                Ok(v) => {
                    if v != full {
                        let mut a = v.clone();
                        let mut b = full.clone();
                        a.sort();
                        b.sort();
                        let what = if a != b { "ordering changes the element set" } else { "not the stable sort by the listed keys" };
                        return Err(Fail::new(format!("order_by: {what}"), format!("{ordered_q:?}\n unordered {base:?}\n expected  {full:?}\n got       {v:?}")));
                    }
                }
                Err(e) => return Err(Fail::new("order_by: search failed", format!("{ordered_q:?}: {e}"))),
            }
        }
        let expected = slice(full.clone(), rs.offset, rs.limit);
        ci.evals += 1;
        let kind = if rs.origin != QId::Id(0) && rs.destination != QId::Id(0) {
            "path"
        } else if rs.algo == Algo::Elements {
            "elements"
        } else {
            "traversal"
        };
        let ord = if rs.order_by.is_empty() { "unordered" } else { "ordered" };
        let got = run_search(&db, &rs).map_err(|mut f| {
            f.sig = format!("{} [{kind} {ord}]", f.sig);
            f
        })?;
        match got {
            Ok(v) => {
                if v != expected {
                    return Err(Fail::new(
                        format!("slice mismatch [{kind} {ord}]"),
                        format!("{rs:?}\n full {full:?}\n expected {expected:?}\n got {v:?}"),
                    ));
                }
            }
            Err(e) => {
                return Err(Fail::new(format!("sliced search failed [{kind} {ord}]"), format!("{rs:?}: {e}")));
            }
        }
        let beyond = rs.offset + rs.limit > n as u64;
        if (rs.offset > 0 || rs.limit > 0) && (beyond || !rs.order_by.is_empty()) {
            ci.sub_nontrivial.push(hash_json(&(&c.history, &rs)));
        }
        ci.count(format!("{kind} {ord}{}", if beyond { " beyond end" } else { "" }), 1);
    }
    Ok(ci)
}

pub fn c16(ctx: &mut Ctx) {
    ctx.rule = "random searches (bfs/dfs from/to, path, elements; conditions at low weight) x offset in 0..n+3 x limit in 0..n+3 (n = unsliced result length) x 0-3 order_by keys (asc/desc) over keys with mixed presence and mixed value types. Oracle (metamorphic, panics caught): R(O,L) equals positions O..O+L (clipped, L=0 unlimited) of the same query with O=L=0; the ordered unsliced result equals a reference stable sort (missing keys last, DbValue order) of the unordered result; never Err, never a panic. Non-trivial: O>0 or L>0, and (O+L>n or order_by non-empty). Distinct = hash of (graph history, resolved search).".into();
    let cases = ctx.tier.pick(50_000, 500_000);
    let (lo, hi) = ctx.tier.pick((10, 50), (10, 80));
    replay_saved::<SearchCase, _>(ctx, "c16-search", c16_case);
    run_campaign(
        ctx,
        CampaignCfg {
            name: "c16-search",
            cases,
            max_shrink_iters: 3000,
            max_restarts: 3,
        },
        move || {
            (vgen::history(&graph_profile(), lo, hi), prop::collection::vec(sliced_search(), 8..=8))
                .prop_map(|(history, searches)| SearchCase { history, searches })
        },
        c16_case,
    );
}

pub fn c16_replay(path: &str) -> i32 {
    replay_case(path, c16_case)
}

// ---------------------------------------------------------------------------------------
// C17

#[derive(PartialEq, Eq)]
struct HeapItem(u64, i64, usize);
impl Ord for HeapItem {
    fn cmp(&self, o: &Self) -> std::cmp::Ordering {
        o.0.cmp(&self.0).then(o.1.cmp(&self.1)).then(o.2.cmp(&self.2))
    }
}
impl PartialOrd for HeapItem {
    fn partial_cmp(&self, o: &Self) -> Option<std::cmp::Ordering> {
        Some(self.cmp(o))
    }
}

/// element cost: Some(1) selected, Some(2) not selected, None unusable (conditions stop)
fn elem_cost(m: &RefDb, conds: &[CCond], id: i64) -> (Option<u64>, bool) {
    // conditions are position independent here (no Distance), distance 1 avoids the
    // origin exemption of beyond()
    let (ctl, sel) = m.eval_conds(conds, id, 1);
    match ctl {
        Ctl::Continue => (Some(if sel { 1 } else { 2 }), sel),
        Ctl::Stop => (None, sel),
    }
}

/// Dijkstra over states (node, k) where k = length of the matched prefix of `want` (the
/// returned list). With `want = None` computes the unconstrained minimum cost.
fn min_cost(m: &RefDb, conds: &[CCond], from: i64, to: i64, want: Option<&[i64]>) -> Option<u64> {
    let origin_sel = m.eval_conds(conds, from, 0).1;
    let start_k = match want {
        Some(w) => {
            if origin_sel {
                if w.first() == Some(&from) { 1 } else { return None }
            } else {
                0
            }
        }
        None => 0,
    };
    let mut best: BTreeMap<(i64, usize), u64> = BTreeMap::new();
    let mut heap = BinaryHeap::new();
    heap.push(HeapItem(0, from, start_k));
    while let Some(HeapItem(c, node, k)) = heap.pop() {
        if let Some(b) = best.get(&(node, k)) {
            if *b <= c {
                continue;
            }
        }
        best.insert((node, k), c);
        if node == to {
            match want {
                None => return Some(c),
                Some(w) => {
                    if k == w.len() {
                        return Some(c);
                    }
                }
            }
            // a path ends when the destination is reached
            continue;
        }
        let n = match m.nodes.get(&node) {
            Some(n) => n,
            None => continue,
        };
        for e in &n.out {
            let (ec, esel) = elem_cost(m, conds, *e);
            let ec = match ec {
                Some(c) => c,
                None => continue,
            };
            let target = m.edges[e].1;
            let (nc, nsel) = elem_cost(m, conds, target);
            let nc = match nc {
                Some(c) => c,
                None => continue,
            };
            let mut k2 = k;
            if let Some(w) = want {
                if esel {
                    if w.get(k2) == Some(e) { k2 += 1 } else { continue }
                }
                if nsel {
                    if w.get(k2) == Some(&target) { k2 += 1 } else { continue }
                }
            }
            heap.push(HeapItem(c + ec + nc, target, k2));
        }
    }
    None
}

fn count_simple_paths(m: &RefDb, from: i64, to: i64, limit: usize) -> usize {
    fn go(m: &RefDb, cur: i64, to: i64, seen: &mut Vec<i64>, count: &mut usize, limit: usize, depth: usize) {
        if *count >= limit || depth > 8 {
            return;
        }
        if cur == to {
            *count += 1;
            return;
        }
        if let Some(n) = m.nodes.get(&cur) {
            for e in &n.out {
                let t = m.edges[e].1;
                if !seen.contains(&t) {
                    seen.push(t);
                    go(m, t, to, seen, count, limit, depth + 1);
                    seen.pop();
                }
            }
        }
    }
    let mut c = 0;
    go(m, from, to, &mut vec![from], &mut c, limit, 0);
    c
}

fn check_path(m: &RefDb, rs: &CSearch, actual: &Result<Vec<i64>, String>) -> Result<bool, Fail> {
    let res = |q: &QId| -> Option<i64> {
        match q {
            QId::Id(i) if m.exists(*i) => Some(*i),
            QId::Alias(a) => m.aliases.get(a).cloned(),
            _ => None,
        }
    };
    let (from, to) = (res(&rs.origin), res(&rs.destination));
    let (from, to) = match (from, to) {
        (Some(f), Some(t)) => (f, t),
        _ => {
            // an endpoint that does not exist: documentation promises an error, the property
            // an empty result; either is accepted
            return match actual {
                Err(_) => Ok(false),
                Ok(v) if v.is_empty() => Ok(false),
                Ok(v) => Err(Fail::new("path: result for a missing endpoint", format!("{rs:?} returned {v:?}"))),
            };
        }
    };
    let got = match actual {
        Ok(v) => v,
        Err(e) => return Err(Fail::new("path: rejected", format!("{rs:?} failed: {e}"))),
    };
    if from < 0 || to < 0 || from == to {
        if !got.is_empty() {
            return Err(Fail::new("path: non-empty result for edge endpoint or origin == destination", format!("{rs:?} returned {got:?}")));
        }
        return Ok(false);
    }
    let cstar = min_cost(m, &rs.conditions, from, to, None);
    match cstar {
        None => {
            if !got.is_empty() {
                return Err(Fail::new("path: result although no usable path exists", format!("{rs:?} returned {got:?}")));
            }
            Ok(false)
        }
        Some(c) => {
            // (c) every returned element passes the conditions
            for id in got {
                let d = if *id == from { 0 } else { 1 };
                if !m.eval_conds(&rs.conditions, *id, d).1 {
                    return Err(Fail::new("path: returned element fails the conditions", format!("{rs:?} returned {got:?}; {id} fails")));
                }
            }
            let any_selected_path_elem = min_cost(m, &rs.conditions, from, to, Some(got));
            match any_selected_path_elem {
                Some(c2) if c2 == c => {}
                Some(c2) => {
                    return Err(Fail::new(
                        "path: not a minimum-cost path",
                        format!("{rs:?} returned {got:?}: cheapest consistent path costs {c2}, minimum is {c}"),
                    ));
                }
                None => {
                    return Err(Fail::new(
                        if got.is_empty() { "path: empty result although a usable path exists" } else { "path: result is not the selected elements of any usable path" },
                        format!("{rs:?} returned {got:?}; minimum cost {c}"),
                    ));
                }
            }
            let nt = count_simple_paths(m, from, to, 2) >= 2
                && m.all_ids().iter().any(|i| !m.eval_conds(&rs.conditions, *i, 1).1);
            Ok(nt)
        }
    }
}

/// true when every minimum-cost path has strictly more hops than the shortest usable path (the
/// shape in which "fewest hops" and "minimum cost" disagree)
fn cheapest_is_longer(m: &RefDb, conds: &[CCond], from: i64, to: i64) -> bool {
    // best[node][h] = minimum cost of reaching node with exactly h node-hops (bounded)
    let max_h = 12usize;
    let mut best: Vec<BTreeMap<i64, u64>> = vec![BTreeMap::new(); max_h + 1];
    best[0].insert(from, 0);
    for h in 0..max_h {
        let cur: Vec<(i64, u64)> = best[h].iter().map(|(k, v)| (*k, *v)).collect();
        for (node, c) in cur {
            if node == to {
                continue;
            }
            if let Some(n) = m.nodes.get(&node) {
                for e in &n.out {
                    let (Some(ec), _) = elem_cost(m, conds, *e) else { continue };
                    let target = m.edges[e].1;
                    let (Some(nc), _) = elem_cost(m, conds, target) else { continue };
                    let entry = best[h + 1].entry(target).or_insert(u64::MAX);
                    *entry = (*entry).min(c + ec + nc);
                }
            }
        }
    }
    let per_h: Vec<Option<u64>> = (0..=max_h).map(|h| best[h].get(&to).cloned()).collect();
    let first = per_h.iter().position(|c| c.is_some());
    match first {
        Some(h0) => {
            let c0 = per_h[h0].unwrap();
            per_h.iter().skip(h0 + 1).flatten().any(|c| *c < c0)
        }
        None => false,
    }
}

/// dense marked graphs for path searches: 4-9 nodes, n..3n edges, about half of the nodes and
/// edges carry the marker key k0 (so that conditions on k0 make some elements cost 2)
fn path_graph() -> BoxedStrategy<Vec<Step>> {
    (4usize..=9)
        .prop_flat_map(|n| {
            (
                prop::collection::vec(any::<bool>(), n..=n),
                prop::collection::vec((0..n, 0..n, any::<bool>()), n..=3 * n),
            )
        })
        .prop_map(|(nodes, edges)| {
            let mark = |b: bool| if b { vec![(Val::Str("k0".into()), Val::I64(5))] } else { vec![] };
            let mut history = vec![Step::Q(CQuery::InsertNodes {
                count: 0,
                values: QVals::Multi(nodes.iter().map(|b| mark(*b)).collect()),
                aliases: vec![],
                ids: QIds::Ids(vec![]),
            })];
            for (f, t, b) in edges {
                history.push(Step::Q(CQuery::InsertEdges {
                    from: QIds::Ids(vec![QId::Id(f as i64 + 1)]),
                    to: QIds::Ids(vec![QId::Id(t as i64 + 1)]),
                    ids: QIds::Ids(vec![]),
                    values: QVals::Single(mark(b)),
                    each: false,
                }));
            }
            history
        })
        .boxed()
}

/// two routes from node 1 to node 2: a short one (a hops) whose elements mostly lack the marker
/// and a longer one (b hops, a < b < 2a+1) whose elements mostly carry it, plus noise edges; with
/// a condition on the marker the longer route is usually the cheaper one
fn two_route_graph() -> BoxedStrategy<Vec<Step>> {
    (1usize..=3)
        .prop_flat_map(|a| (Just(a), a + 1..=2 * a + 1))
        .prop_flat_map(|(a, b)| {
            let n = 2 + (a - 1) + (b - 1);
            (
                Just((a, b)),
                prop::collection::vec(prop::bool::weighted(0.12), 2 * (a + b) + 2),
                prop::collection::vec((0..n, 0..n, any::<bool>()), 0..4),
                any::<bool>(),
            )
        })
        .prop_map(|((a, b), flips, noise, short_first)| {
            let mark = |m: bool| if m { vec![(Val::Str("k0".into()), Val::I64(5))] } else { vec![] };
            let n = 2 + (a - 1) + (b - 1);
            // node ids: 1 = origin, 2 = destination, 3.. = inner nodes of the short route, then of the long one
            let short_nodes: Vec<usize> = std::iter::once(1).chain(3..3 + (a - 1)).chain(std::iter::once(2)).collect();
            let long_nodes: Vec<usize> = std::iter::once(1).chain(3 + (a - 1)..3 + (a - 1) + (b - 1)).chain(std::iter::once(2)).collect();
            let mut f = flips.into_iter();
            let mut node_marks = vec![false; n + 1];
            for i in &short_nodes[1..short_nodes.len() - 1] {
                node_marks[*i] = f.next().unwrap_or(false);
            }
            for i in &long_nodes[1..long_nodes.len() - 1] {
                node_marks[*i] = !f.next().unwrap_or(false);
            }
            node_marks[2] = f.next().unwrap_or(false);
            let mut history = vec![Step::Q(CQuery::InsertNodes {
                count: 0,
                values: QVals::Multi((1..=n).map(|i| mark(node_marks[i])).collect()),
                aliases: vec![],
                ids: QIds::Ids(vec![]),
            })];
            let mut routes = vec![(short_nodes, false), (long_nodes, true)];
            if !short_first {
                routes.reverse();
            }
            for (route, marked) in routes {
                for w in route.windows(2) {
                    let m = marked != f.next().unwrap_or(false);
                    history.push(Step::Q(CQuery::InsertEdges {
                        from: QIds::Ids(vec![QId::Id(w[0] as i64)]),
                        to: QIds::Ids(vec![QId::Id(w[1] as i64)]),
                        ids: QIds::Ids(vec![]),
                        values: QVals::Single(mark(m)),
                        each: false,
                    }));
                }
            }
            for (x, y, m) in noise {
                history.push(Step::Q(CQuery::InsertEdges {
                    from: QIds::Ids(vec![QId::Id(x as i64 + 1)]),
                    to: QIds::Ids(vec![QId::Id(y as i64 + 1)]),
                    ids: QIds::Ids(vec![]),
                    values: QVals::Single(mark(m)),
                    each: false,
                }));
            }
            history
        })
        .boxed()
}

fn marked_path_search() -> BoxedStrategy<CSearch> {
    let k0 = || CData::Keys(vec![Val::Str("k0".into())]);
    let cp = CondProfile {
        distance: false,
        depth: 1,
        cross_type_ordering: true,
    };
    let conds = prop_oneof![
        1 => Just(vec![]),
        3 => Just(vec![CCond { logic: Logic::And, modifier: Modifier::None, data: k0() }]),
        3 => Just(vec![CCond { logic: Logic::And, modifier: Modifier::Not, data: k0() }]),
        2 => Just(vec![cond(CData::Node), CCond { logic: Logic::Or, modifier: Modifier::None, data: k0() }]),
        2 => Just(vec![cond(CData::Edge), CCond { logic: Logic::Or, modifier: Modifier::Not, data: k0() }]),
        2 => Just(vec![cond(CData::Edge), CCond { logic: Logic::And, modifier: Modifier::None, data: k0() }]),
        2 => vgen::cond_list(&cp, 1),
    ];
    (any::<u16>(), any::<u16>(), conds)
        .prop_map(|(a, b, conditions)| {
            let mut s = CSearch::from(QId::SelNode(a));
            s.destination = QId::SelNode(b);
            s.conditions = conditions;
            s
        })
        .boxed()
}

fn path_search() -> BoxedStrategy<CSearch> {
    let cp = CondProfile {
        distance: false,
        depth: 1,
        cross_type_ordering: true,
    };
    let endpoint = || {
        prop_oneof![
            12 => any::<u16>().prop_map(QId::SelNode),
            1 => any::<u16>().prop_map(QId::SelEdge),
            1 => (0u8..2).prop_map(|k| QId::Missing(k, true)),
            1 => any::<u16>().prop_map(QId::SelAlias),
        ]
    };
    (endpoint(), endpoint(), prop_oneof![2 => Just(vec![]), 3 => vgen::cond_list(&cp, 1)])
        .prop_map(|(a, b, conds)| {
            let mut s = CSearch::from(a);
            s.destination = b;
            s.conditions = conds;
            s
        })
        .boxed()
}

fn c17_case(c: &SearchCase) -> CaseResult {
    let (m, db, info) = build(&c.history)?;
    let mut ci = CaseInfo::default();
    info.export(&mut ci);
    for s in &c.searches {
        let rs = m.resolve_search(s);
        if rs.origin == QId::Id(0) || rs.destination == QId::Id(0) {
            continue;
        }
        let actual = run_search(&db, &rs)?;
        ci.evals += 1;
        if check_path(&m, &rs, &actual)? {
            ci.sub_nontrivial.push(hash_json(&(&c.history, s)));
            if let (QId::Id(f), QId::Id(t)) = (&rs.origin, &rs.destination) {
                if cheapest_is_longer(&m, &rs.conditions, *f, *t) {
                    ci.count("every cheapest path has more hops than the shortest usable path", 1);
                }
            }
        }
        if let Ok(v) = &actual {
            ci.count(if v.is_empty() { "empty result" } else { "path found" }, 1);
        }
    }
    Ok(ci)
}

fn c17_small_scope(ctx: &mut Ctx, n: usize, max_edges: usize) {
    // exhaustive multigraphs x all ordered (origin, destination) pairs, condition-free and with
    // one fixed condition set that makes some elements expensive
    let pairs = n * n;
    let mut evals = 0u64;
    let mut fails: Vec<(SearchCase, Fail)> = vec![];
    let mut nontrivial = vec![];
    for m_edges in 0..=max_edges {
        for code in 0..pairs.pow(m_edges as u32) {
            let mut c = code;
            let mut history = vec![Step::Q(CQuery::InsertNodes {
                count: n as u64,
                values: QVals::Single(vec![]),
                aliases: vec![],
                ids: QIds::Ids(vec![]),
            })];
            for i in 0..m_edges {
                let p = c % pairs;
                c /= pairs;
                // every second edge carries a marker so that conditions create cost differences
                let values = if i % 2 == 0 { vec![(Val::Str("k0".into()), Val::I64(5))] } else { vec![] };
                history.push(Step::Q(CQuery::InsertEdges {
                    from: QIds::Ids(vec![QId::Id((p / n) as i64 + 1)]),
                    to: QIds::Ids(vec![QId::Id((p % n) as i64 + 1)]),
                    ids: QIds::Ids(vec![]),
                    values: QVals::Single(values),
                    each: false,
                }));
            }
            let (m, db, _) = match build(&history) {
                Ok(x) => x,
                Err(f) => {
                    fails.push((SearchCase { history, searches: vec![] }, f));
                    continue;
                }
            };
            let cond_sets: Vec<Vec<CCond>> = vec![
                vec![],
                vec![cond(CData::Node), CCond { logic: Logic::Or, modifier: Modifier::None, data: CData::Keys(vec![Val::Str("k0".into())]) }],
                vec![CCond { logic: Logic::And, modifier: Modifier::Not, data: CData::Keys(vec![Val::Str("k0".into())]) }],
            ];
            for a in 1..=n as i64 {
                for b in 1..=n as i64 {
                    for conds in &cond_sets {
                        let mut s = CSearch::from(QId::Id(a));
                        s.destination = QId::Id(b);
                        s.conditions = conds.clone();
                        evals += 1;
                        match run_search(&db, &s).and_then(|r| check_path(&m, &s, &r)) {
                            Ok(true) => nontrivial.push(hash_json(&(&history, &s))),
                            Ok(false) => {}
                            Err(f) => {
                                if !fails.iter().any(|(_, g)| g.sig == f.sig) {
                                    fails.push((SearchCase { history: history.clone(), searches: vec![s] }, f));
                                }
                            }
                        }
                    }
                }
            }
        }
    }
    ctx.evaluations += evals;
    ctx.nontrivial.extend(nontrivial);
    ctx.label("small-scope path searches", evals);
    ctx.extra.insert("small_scope".into(), serde_json::json!({"nodes": n, "max_edges": max_edges, "searches": evals, "exhaustive": true}));
    for (case, f) in fails {
        ctx.record_failure("c17-search", &case, &f);
    }
}

pub fn c17(ctx: &mut Ctx) {
    ctx.rule = "(i) exhaustive multigraphs with N nodes and <=M edges x all ordered (origin,destination) pairs x 3 condition sets; (ii) random graphs from generated histories x random endpoints (nodes, edges, missing ids, aliases, equal) x random condition sets without distance; (iii) dense marked graphs (4-9 nodes, n..3n edges, about half of the nodes and edges carry a marker key) x random node pairs x condition sets on the marker (so that alternative routes differ in hops and in cost; the label 'every cheapest path has more hops than the shortest usable path' counts the searches where fewest-hops and minimum-cost disagree). Oracle (validity, not one expected answer): reference Dijkstra over element costs (1 selected, 2 not selected, unusable if the conditions stop; origin free) gives the minimum cost c*; the result must be empty iff no usable path exists / an endpoint is not an existing node / origin == destination, otherwise every returned element passes the conditions and a second Dijkstra constrained to paths whose selected elements are exactly the returned list must reach the destination with cost c*. Non-trivial: a usable path exists, >=2 distinct simple paths connect the pair and some element fails the conditions. Distinct = hash of (graph, search).".into();
    replay_saved::<SearchCase, _>(ctx, "c17-search", c17_case);
    let (n, m) = ctx.tier.pick((3, 3), (3, 4));
    if ctx.runs_once_here() {
        c17_small_scope(ctx, n, m);
    }
    let cases = ctx.tier.pick(30_000, 300_000);
    let (lo, hi) = ctx.tier.pick((10, 50), (10, 80));
    run_campaign(
        ctx,
        CampaignCfg {
            name: "c17-search",
            cases,
            max_shrink_iters: 3000,
            max_restarts: 3,
        },
        move || {
            (vgen::history(&graph_profile(), lo, hi), prop::collection::vec(path_search(), 8..=8))
                .prop_map(|(history, searches)| SearchCase { history, searches })
        },
        c17_case,
    );
    // dense marked graphs: many alternative routes of different lengths and costs
    let cases = ctx.tier.pick(80_000, 800_000);
    run_campaign(
        ctx,
        CampaignCfg {
            name: "c17-search",
            cases,
            max_shrink_iters: 3000,
            max_restarts: 3,
        },
        move || {
            (prop_oneof![path_graph(), two_route_graph()], prop::collection::vec(marked_path_search(), 6..=6)).prop_map(|(history, mut searches)| {
                // the first two searches go from node 1 to node 2 (the endpoints of the two-route construction)
                for s in searches.iter_mut().take(2) {
                    s.origin = QId::Id(1);
                    s.destination = QId::Id(2);
                }
                SearchCase { history, searches }
            })
        },
        c17_case,
    );
}

pub fn c17_replay(path: &str) -> i32 {
    replay_case(path, c17_case)
}

// ---------------------------------------------------------------------------------------
// C18

fn elements_search() -> BoxedStrategy<CSearch> {
    let cp = CondProfile {
        distance: false,
        depth: 1,
        cross_type_ordering: true,
    };
    (prop_oneof![2 => Just(vec![]), 2 => vgen::cond_list(&cp, 1)], 0u16..=u16::MAX, 0u16..=u16::MAX, 0u8..3)
        .prop_map(|(conds, off, lim, mode)| {
            let mut s = CSearch::elements();
            s.conditions = conds;
            if mode > 0 {
                s.offset = off as u64;
                s.limit = lim as u64;
            }
            s
        })
        .boxed()
}

fn c18_case(c: &SearchCase) -> CaseResult {
    let (m, db, info) = build(&c.history)?;
    let mut ci = CaseInfo::default();
    info.export(&mut ci);
    let interesting = m.stats.slots_freed >= 3 && m.stats.reused_other_kind >= 1;
    if interesting {
        ci.label(">=3 slots freed and >=1 reused by other kind");
    }
    let live = m.all_ids();
    for s in &c.searches {
        let mut rs = m.resolve_search(s);
        let n = live.len();
        rs.offset = pick(rs.offset as u16, n + 3) as u64;
        rs.limit = pick(rs.limit as u16, n + 3) as u64;
        let actual = run_search(&db, &rs)?;
        ci.evals += 1;
        let expected = m.search(&rs).map_err(|e| Fail::new("harness: reference elements search failed", e))?;
        match actual {
            Ok(v) => {
                if v != expected {
                    let what = if v.iter().any(|i| !m.exists(*i)) {
                        "returns a removed element"
                    } else if rs.conditions.is_empty() && rs.offset == 0 && rs.limit == 0 {
                        "unconditional scan differs from the live elements in slot order"
                    } else if rs.conditions.is_empty() {
                        "slice of the scan differs"
                    } else {
                        "filtered scan differs"
                    };
                    return Err(Fail::new(format!("elements: {what}"), format!("{rs:?}\n expected {expected:?}\n got      {v:?}")));
                }
            }
            Err(e) => return Err(Fail::new("elements: search failed", format!("{rs:?}: {e}"))),
        }
        if interesting {
            ci.sub_nontrivial.push(hash_json(&(&c.history, &rs)));
        }
        ci.count(
            format!(
                "elements{}{}",
                if rs.conditions.is_empty() { "" } else { " +conditions" },
                if rs.offset > 0 || rs.limit > 0 { " +slice" } else { "" }
            ),
            1,
        );
    }
    Ok(ci)
}

pub fn c18(ctx: &mut Ctx) {
    ctx.rule = "histories with heavy removal and id reuse in random order, then search().elements() without and with conditions (no distance), limits and offsets in 0..n+2; the result must equal the model's live elements sorted by |id| (a slot holds either a node or an edge), filtered by the reference evaluator and sliced. Non-trivial: >=3 slots were freed and >=1 was reused by the other element kind. Distinct = hash of (history, resolved search).".into();
    let cases = ctx.tier.pick(30_000, 300_000);
    let (lo, hi) = ctx.tier.pick((20, 70), (20, 120));
    let mut p = graph_profile();
    p.w_remove = 16;
    replay_saved::<SearchCase, _>(ctx, "c18-search", c18_case);
    run_campaign(
        ctx,
        CampaignCfg {
            name: "c18-search",
            cases,
            max_shrink_iters: 3000,
            max_restarts: 3,
        },
        move || {
            (vgen::history(&p, lo, hi), prop::collection::vec(elements_search(), 6..=6))
                .prop_map(|(history, searches)| SearchCase { history, searches })
        },
        c18_case,
    );
}

pub fn c18_replay(path: &str) -> i32 {
    replay_case(path, c18_case)
}
