//! Value model and value generators (DESIGN 2.1).
use agdb::{DbF64, DbKeyValue, DbValue};
use proptest::prelude::*;
use serde::{Deserialize, Serialize};

/// Own value type: serialisable, floats kept as bit patterns so that equality is bitwise.
#[derive(Clone, Debug, PartialEq, Eq, Hash, PartialOrd, Ord, Serialize, Deserialize)]
pub enum Val {
    Bytes(Vec<u8>),
    I64(i64),
    U64(u64),
    F64(u64),
    Str(String),
    VI64(Vec<i64>),
    VU64(Vec<u64>),
    VF64(Vec<u64>),
    VStr(Vec<String>),
}

impl Val {
    pub fn to_db(&self) -> DbValue {
        match self {
            Val::Bytes(b) => DbValue::Bytes(b.clone()),
            Val::I64(v) => DbValue::I64(*v),
            Val::U64(v) => DbValue::U64(*v),
            Val::F64(b) => DbValue::F64(DbF64::from(f64::from_bits(*b))),
            Val::Str(s) => DbValue::String(s.clone()),
            Val::VI64(v) => DbValue::VecI64(v.clone()),
            Val::VU64(v) => DbValue::VecU64(v.clone()),
            Val::VF64(v) => DbValue::VecF64(v.iter().map(|b| DbF64::from(f64::from_bits(*b))).collect()),
            Val::VStr(v) => DbValue::VecString(v.clone()),
        }
    }

    pub fn from_db(v: &DbValue) -> Val {
        match v {
            DbValue::Bytes(b) => Val::Bytes(b.clone()),
            DbValue::I64(v) => Val::I64(*v),
            DbValue::U64(v) => Val::U64(*v),
            DbValue::F64(f) => Val::F64(f.to_f64().to_bits()),
            DbValue::String(s) => Val::Str(s.clone()),
            DbValue::VecI64(v) => Val::VI64(v.clone()),
            DbValue::VecU64(v) => Val::VU64(v.clone()),
            DbValue::VecF64(v) => Val::VF64(v.iter().map(|f| f.to_f64().to_bits()).collect()),
            DbValue::VecString(v) => Val::VStr(v.clone()),
        }
    }

    pub fn variant(&self) -> u8 {
        match self {
            Val::Bytes(_) => 1,
            Val::I64(_) => 2,
            Val::U64(_) => 3,
            Val::F64(_) => 4,
            Val::Str(_) => 5,
            Val::VI64(_) => 6,
            Val::VU64(_) => 7,
            Val::VF64(_) => 8,
            Val::VStr(_) => 9,
        }
    }

    /// Byte length of the payload as the value layer stores it (used for the 15/16 boundary rule).
    pub fn payload_len(&self) -> usize {
        match self {
            Val::Bytes(b) => b.len(),
            Val::I64(_) | Val::U64(_) | Val::F64(_) => 8,
            Val::Str(s) => s.len(),
            Val::VI64(v) => v.len() * 8,
            Val::VU64(v) => v.len() * 8,
            Val::VF64(v) => v.len() * 8,
            Val::VStr(v) => v.iter().map(|s| s.len() + 8).sum(),
        }
    }

    pub fn is_boundary(&self) -> bool {
        match self {
            Val::Bytes(b) => (14..=17).contains(&b.len()) || b.is_empty(),
            Val::Str(s) => (14..=17).contains(&s.len()) || s.is_empty(),
            Val::F64(b) => {
                let f = f64::from_bits(*b);
                f.is_nan() || (f == 0.0 && f.is_sign_negative()) || f.is_subnormal()
            }
            Val::VI64(v) => v.is_empty(),
            Val::VU64(v) => v.is_empty(),
            Val::VF64(v) => v.is_empty() || v.iter().any(|b| f64::from_bits(*b).is_nan()),
            Val::VStr(v) => v.is_empty() || v.iter().any(|s| s.is_empty()),
            _ => false,
        }
    }

    /// Reference ordering: the public `Ord` of `DbValue`.
    pub fn db_cmp(&self, other: &Val) -> std::cmp::Ordering {
        self.to_db().cmp(&other.to_db())
    }
}

pub fn kv(k: &Val, v: &Val) -> DbKeyValue {
    DbKeyValue {
        key: k.to_db(),
        value: v.to_db(),
    }
}

pub fn boundary_len() -> impl Strategy<Value = usize> {
    prop_oneof![
        6 => prop::sample::select(vec![0usize, 1, 7, 8, 14, 15, 16, 17, 31, 32, 33, 40]),
        6 => 0usize..41,
        1 => 200usize..5000,
    ]
}

fn string_of_len(len: usize, kind: u8, seed: u64) -> String {
    // builds a string with byte length as close as possible to `len` (never above), from the
    // requested character class
    let alphabet: &[char] = match kind % 5 {
        0 => &['a', 'b', 'z', 'A', '0', ' ', '~'],
        1 => &['é', 'ß', 'ñ', 'Ω'],           // 2-byte
        2 => &['€', '你', '好', '‽'],          // 3-byte
        3 => &['😀', '𝄞', '🦀'],               // 4-byte
        _ => &['a', '\0', 'é', '€', '😀', '\n'], // mixed with embedded NUL
    };
    let mut s = String::new();
    let mut x = seed;
    loop {
        x = x.wrapping_mul(6364136223846793005).wrapping_add(1442695040888963407);
        let c = alphabet[((x >> 33) as usize) % alphabet.len()];
        if s.len() + c.len_utf8() > len {
            // pad with ascii to reach the exact byte length
            while s.len() < len {
                s.push('x');
            }
            break;
        }
        s.push(c);
    }
    s
}

pub fn any_string() -> impl Strategy<Value = String> {
    (boundary_len(), any::<u8>(), any::<u64>()).prop_map(|(l, k, s)| string_of_len(l, k, s))
}

pub fn any_bytes() -> impl Strategy<Value = Vec<u8>> {
    boundary_len().prop_flat_map(|l| prop::collection::vec(any::<u8>(), l..=l))
}

pub fn any_i64() -> impl Strategy<Value = i64> {
    prop_oneof![
        3 => prop::sample::select(vec![0i64, 1, -1, i64::MIN, i64::MAX, i64::MIN + 1, 255, 256, -256]),
        3 => any::<i64>(),
        2 => -100i64..100,
    ]
}

pub fn any_u64() -> impl Strategy<Value = u64> {
    prop_oneof![
        3 => prop::sample::select(vec![0u64, 1, u64::MAX, 1u64 << 63, (1u64 << 63) - 1, 255, 256, u32::MAX as u64]),
        3 => any::<u64>(),
        2 => 0u64..100,
    ]
}

pub fn any_f64_bits() -> impl Strategy<Value = u64> {
    prop_oneof![
        4 => prop::sample::select(vec![
            0.0f64.to_bits(),
            (-0.0f64).to_bits(),
            f64::INFINITY.to_bits(),
            f64::NEG_INFINITY.to_bits(),
            f64::NAN.to_bits(),
            0x7ff8_0000_0000_0001u64, // quiet NaN with payload
            0x7ff0_0000_0000_0001u64, // signalling NaN
            0xfff8_0000_dead_beefu64, // negative NaN with payload
            1u64,                     // smallest subnormal
            0x000f_ffff_ffff_ffffu64, // largest subnormal
            f64::MIN_POSITIVE.to_bits(),
            f64::MAX.to_bits(),
            f64::MIN.to_bits(),
            1.5f64.to_bits(),
            5.0f64.to_bits(),
        ]),
        4 => any::<u64>(),
        1 => (-1000i32..1000).prop_map(|i| (i as f64 / 8.0).to_bits()),
    ]
}

fn vec_len() -> impl Strategy<Value = usize> {
    prop_oneof![8 => 0usize..6, 1 => 100usize..101]
}

/// Full value strategy over all nine variants with heavy boundary mass.
pub fn any_val() -> impl Strategy<Value = Val> {
    prop_oneof![
        2 => any_bytes().prop_map(Val::Bytes),
        2 => any_i64().prop_map(Val::I64),
        2 => any_u64().prop_map(Val::U64),
        2 => any_f64_bits().prop_map(Val::F64),
        3 => any_string().prop_map(Val::Str),
        1 => vec_len().prop_flat_map(|l| prop::collection::vec(any_i64(), l..=l)).prop_map(Val::VI64),
        1 => vec_len().prop_flat_map(|l| prop::collection::vec(any_u64(), l..=l)).prop_map(Val::VU64),
        1 => vec_len().prop_flat_map(|l| prop::collection::vec(any_f64_bits(), l..=l)).prop_map(Val::VF64),
        1 => (0usize..5).prop_flat_map(|l| prop::collection::vec(any_string(), l..=l)).prop_map(Val::VStr),
    ]
}

/// Key pool used by histories: 8 keys of mixed type, one stored out of line.
pub fn key_pool() -> Vec<Val> {
    vec![
        Val::Str("k0".into()),
        Val::Str("k1".into()),
        Val::Str("k2".into()),
        Val::Str("k3".into()),
        Val::I64(1),
        Val::U64(1),
        Val::Str("a-key-longer-than-15-bytes".into()),
        Val::Str("age".into()),
    ]
}

/// Value pool used by histories: 16 values, mixing types under the same "5" family,
/// inline and out-of-line payloads, vectors.
pub fn value_pool() -> Vec<Val> {
    vec![
        Val::I64(5),
        Val::U64(5),
        Val::F64(5.0f64.to_bits()),
        Val::Str("5".into()),
        Val::I64(30),
        Val::I64(-7),
        Val::Str("abcdefg".into()),
        Val::Str("exactly15bytes!".into()),
        Val::Str("sixteen bytes!!!".into()),
        Val::Str("a string that is certainly stored out of line".into()),
        Val::Bytes(vec![1, 2, 3]),
        Val::Bytes(vec![9; 20]),
        Val::VI64(vec![1, 5, 9]),
        Val::VStr(vec!["ab".into(), "cd".into()]),
        Val::VF64(vec![5.0f64.to_bits(), f64::NAN.to_bits()]),
        Val::U64(u64::MAX),
    ]
}

pub fn alias_pool() -> Vec<String> {
    vec![
        "a".into(),
        "b".into(),
        "c".into(),
        "alias-longer-than-fifteen-bytes".into(),
        "é".into(),
        "f".into(),
    ]
}

pub fn pool_key() -> impl Strategy<Value = Val> {
    (0usize..8).prop_map(|i| key_pool()[i].clone())
}

pub fn pool_value() -> impl Strategy<Value = Val> {
    prop_oneof![
        9 => (0usize..16).prop_map(|i| value_pool()[i].clone()),
        1 => any_val(),
    ]
}
