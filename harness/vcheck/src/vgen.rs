//! Generators for queries and histories (DESIGN 2.2). Everything is *constructed* from
//! proptest strategies; element references are selectors resolved against the model state.
use crate::query::*;
use crate::val::*;
use proptest::prelude::*;
use serde::{Deserialize, Serialize};

#[derive(Clone, Debug)]
pub struct Profile {
    pub w_insert_nodes: u32,
    pub w_insert_nodes_ids: u32,
    pub w_insert_edges: u32,
    pub w_insert_edges_ids: u32,
    pub w_insert_aliases: u32,
    pub w_insert_values: u32,
    pub w_insert_index: u32,
    pub w_remove: u32,
    pub w_remove_aliases: u32,
    pub w_remove_values: u32,
    pub w_remove_index: u32,
    pub w_reads: u32,
    pub w_tx: u32,
    /// percentage (0..100) of deliberately invalid references
    pub invalid_pct: u32,
    /// allow ids given by search sub-queries
    pub subsearch: bool,
    /// generate empty aliases (C10 trigger)
    pub empty_alias: bool,
    /// generate alias inserts on edge ids (C10 trigger)
    pub alias_on_edge: bool,
    /// max number of nodes created by one insert
    pub max_count: u64,
    /// values attached to structural inserts
    pub values_on_insert: bool,
    /// percentage of arbitrary (non-pool) values
    pub wild_values: bool,
    /// only values that survive a JSON round trip (no NaN / infinity), for the server API
    pub json_safe: bool,
    /// percentage of histories that contain a "grow and shrink" episode: one insert of 61-75
    /// aliased nodes carrying an indexed key with distinct values (the alias map and the index
    /// grow past their 64-slot minimum), and later one removal of most of them (both shrink back)
    pub grow_shrink_pct: u32,
}

impl Profile {
    pub fn general() -> Self {
        Profile {
            w_insert_nodes: 10,
            w_insert_nodes_ids: 3,
            w_insert_edges: 10,
            w_insert_edges_ids: 2,
            w_insert_aliases: 5,
            w_insert_values: 10,
            w_insert_index: 2,
            w_remove: 7,
            w_remove_aliases: 2,
            w_remove_values: 4,
            w_remove_index: 1,
            w_reads: 12,
            w_tx: 0,
            invalid_pct: 10,
            subsearch: true,
            empty_alias: false,
            alias_on_edge: false,
            max_count: 3,
            values_on_insert: true,
            wild_values: true,
            json_safe: false,
            grow_shrink_pct: 0,
        }
    }
}

pub fn alias_str(p: &Profile) -> BoxedStrategy<String> {
    let pool = (0usize..6).prop_map(|i| alias_pool()[i].clone());
    if p.empty_alias {
        prop_oneof![12 => pool, 1 => Just(String::new())].boxed()
    } else {
        pool.boxed()
    }
}

fn weighted(invalid_pct: u32) -> (u32, u32) {
    (100 - invalid_pct.min(99), invalid_pct.max(1))
}

/// a reference that should be a node
pub fn node_ref(p: &Profile) -> BoxedStrategy<QId> {
    let (ok, bad) = weighted(p.invalid_pct);
    prop_oneof![
        ok * 4 => any::<u16>().prop_map(QId::SelNode),
        ok => any::<u16>().prop_map(QId::SelAlias),
        bad => prop_oneof![
            (0u8..3, any::<bool>()).prop_map(|(k, n)| QId::Missing(k, n)),
            any::<u16>().prop_map(QId::SelRemoved),
            Just(QId::Id(0)),
            any::<u16>().prop_map(QId::SelEdge),
            (0usize..6).prop_map(|i| QId::Alias(alias_pool()[i].clone())),
        ],
    ]
    .boxed()
}

pub fn edge_ref(p: &Profile) -> BoxedStrategy<QId> {
    let (ok, bad) = weighted(p.invalid_pct);
    prop_oneof![
        ok * 5 => any::<u16>().prop_map(QId::SelEdge),
        bad => prop_oneof![
            (0u8..3, any::<bool>()).prop_map(|(k, n)| QId::Missing(k, n)),
            any::<u16>().prop_map(QId::SelRemoved),
            any::<u16>().prop_map(QId::SelNode),
        ],
    ]
    .boxed()
}

pub fn elem_ref(p: &Profile) -> BoxedStrategy<QId> {
    let (ok, bad) = weighted(p.invalid_pct);
    prop_oneof![
        ok * 3 => any::<u16>().prop_map(QId::SelElem),
        ok * 2 => any::<u16>().prop_map(QId::SelNode),
        ok => any::<u16>().prop_map(QId::SelEdge),
        ok => any::<u16>().prop_map(QId::SelAlias),
        bad => prop_oneof![
            (0u8..3, any::<bool>()).prop_map(|(k, n)| QId::Missing(k, n)),
            any::<u16>().prop_map(QId::SelRemoved),
            (0usize..6).prop_map(|i| QId::Alias(alias_pool()[i].clone())),
        ],
    ]
    .boxed()
}

pub fn a_value(p: &Profile) -> BoxedStrategy<Val> {
    if p.json_safe {
        let pool: Vec<Val> = value_pool()
            .into_iter()
            .filter(|v| match v {
                Val::F64(b) => f64::from_bits(*b).is_finite(),
                Val::VF64(v) => v.iter().all(|b| f64::from_bits(*b).is_finite()),
                _ => true,
            })
            .collect();
        return prop::sample::select(pool).boxed();
    }
    if p.wild_values {
        pool_value().boxed()
    } else {
        (0usize..16).prop_map(|i| value_pool()[i].clone()).boxed()
    }
}

/// a list of key-value pairs with *distinct* keys (precondition stated in C09)
pub fn kv_list(p: &Profile, max: usize) -> BoxedStrategy<Vec<(Val, Val)>> {
    let v = a_value(p);
    (prop::collection::vec((0usize..8, v), 0..=max))
        .prop_map(|items| {
            let pool = key_pool();
            let mut seen = vec![];
            let mut out = vec![];
            for (k, v) in items {
                if !seen.contains(&k) {
                    seen.push(k);
                    out.push((pool[k].clone(), v));
                }
            }
            out
        })
        .boxed()
}

pub fn distinct_keys(max: usize) -> BoxedStrategy<Vec<Val>> {
    prop::collection::vec(0usize..8, 0..=max)
        .prop_map(|ks| {
            let pool = key_pool();
            let mut seen = vec![];
            for k in ks {
                if !seen.contains(&k) {
                    seen.push(k);
                }
            }
            seen.into_iter().map(|k| pool[k].clone()).collect()
        })
        .boxed()
}

pub fn qvals(p: &Profile, n_hint: usize) -> BoxedStrategy<QVals> {
    if !p.values_on_insert {
        return Just(QVals::Single(vec![])).boxed();
    }
    let single = kv_list(p, 3).prop_map(QVals::Single);
    let multi = prop::collection::vec(kv_list(p, 3), n_hint.saturating_sub(1)..=n_hint + 1).prop_map(QVals::Multi);
    prop_oneof![3 => single, 2 => multi].boxed()
}

/// Conditions that are safe in the presence of known findings (no cross-type ordering
/// comparison, no origin at an edge): used by sub-queries of C08..C13 histories.
pub fn safe_cond(p: &Profile) -> BoxedStrategy<CCond> {
    let data = prop_oneof![
        3 => Just(CData::Node),
        2 => Just(CData::Edge),
        2 => (0usize..8).prop_map(|k| CData::Keys(vec![key_pool()[k].clone()])),
        3 => ((0usize..8), a_value(p)).prop_map(|(k, v)| CData::KeyValue(key_pool()[k].clone(), Cmp::Eq(v))),
        2 => (0u64..4).prop_map(|n| CData::Distance(CountCmp::Le(n))),
        1 => (0u64..3).prop_map(|n| CData::EdgeCount(CountCmp::Ge(n))),
    ];
    (data, prop_oneof![4 => Just(Modifier::None), 1 => Just(Modifier::Not)], prop_oneof![3 => Just(Logic::And), 1 => Just(Logic::Or)])
        .prop_map(|(data, modifier, logic)| CCond { logic, modifier, data })
        .boxed()
}

/// Search usable as `ids` of another query: origin at a node, safe conditions.
pub fn safe_search(p: &Profile, nodes_only: bool) -> BoxedStrategy<CSearch> {
    let p2 = p.clone();
    (
        prop_oneof![4 => Just(0u8), 2 => Just(1u8), 2 => Just(2u8)],
        any::<u16>(),
        any::<bool>(),
        prop::collection::vec(safe_cond(&p2), 0..3),
        0u64..4,
        0u64..3,
    )
        .prop_map(move |(kind, sel, dfs, mut conds, limit, offset)| {
            // Distance is only documented for graph traversals
            if kind == 2 {
                conds.retain(|c| !matches!(c.data, CData::Distance(_)));
            }
            if nodes_only {
                conds.insert(0, cond(CData::Node));
                // keep And for the leading node() so that only nodes can pass
                for c in conds.iter_mut().skip(1) {
                    c.logic = Logic::And;
                }
            }
            let mut s = match kind {
                0 => CSearch::from(QId::SelNode(sel)),
                1 => CSearch::to(QId::SelNode(sel)),
                _ => CSearch::elements(),
            };
            if kind != 2 && dfs {
                s.algo = Algo::Dfs;
            }
            s.conditions = conds;
            s.limit = limit;
            s.offset = offset;
            s
        })
        .boxed()
}

pub fn ids_of(p: &Profile, r: BoxedStrategy<QId>, max: usize, nodes_only: bool) -> BoxedStrategy<QIds> {
    let list = prop::collection::vec(r, 1..=max).prop_map(QIds::Ids);
    if p.subsearch {
        prop_oneof![5 => list, 1 => safe_search(p, nodes_only).prop_map(|s| QIds::Search(Box::new(s)))].boxed()
    } else {
        list.boxed()
    }
}

pub fn q_insert_nodes(p: &Profile) -> BoxedStrategy<CQuery> {
    let p = p.clone();
    (0u64..=p.max_count, prop::collection::vec(alias_str(&p), 0..3), any::<u8>())
        .prop_flat_map(move |(count, aliases, kind)| {
            let n = std::cmp::max(count as usize, aliases.len());
            let values: BoxedStrategy<QVals> = if !p.values_on_insert {
                Just(QVals::Single(vec![])).boxed()
            } else if kind % 3 == 0 {
                // Multi values: count must be 0 (combination with a different count is undocumented)
                prop::collection::vec(kv_list(&p, 3), n.max(1).saturating_sub(1)..=n.max(1) + 1)
                    .prop_map(QVals::Multi)
                    .boxed()
            } else {
                kv_list(&p, 3).prop_map(QVals::Single).boxed()
            };
            (Just(count), Just(aliases), values)
        })
        .prop_map(|(count, aliases, values)| {
            let count = if matches!(values, QVals::Multi(_)) { 0 } else { count };
            CQuery::InsertNodes {
                count,
                values,
                aliases,
                ids: QIds::Ids(vec![]),
            }
        })
        .boxed()
}

pub fn q_insert_nodes_ids(p: &Profile) -> BoxedStrategy<CQuery> {
    let p = p.clone();
    (ids_of(&p, node_ref(&p), 3, true), prop::collection::vec(alias_str(&p), 0..3), any::<bool>())
        .prop_flat_map(move |(ids, aliases, multi)| {
            let n = match &ids {
                QIds::Ids(v) => v.len(),
                _ => 2,
            };
            let values: BoxedStrategy<QVals> = if multi {
                prop::collection::vec(kv_list(&p, 3), n.saturating_sub(1)..=n + 1)
                    .prop_map(QVals::Multi)
                    .boxed()
            } else {
                kv_list(&p, 3).prop_map(QVals::Single).boxed()
            };
            (Just(ids), Just(aliases), values)
        })
        .prop_map(|(ids, aliases, values)| CQuery::InsertNodes {
            count: 0,
            values,
            aliases,
            ids,
        })
        .boxed()
}

pub fn q_insert_edges(p: &Profile) -> BoxedStrategy<CQuery> {
    let p = p.clone();
    (
        ids_of(&p, node_ref(&p), 3, true),
        ids_of(&p, node_ref(&p), 3, true),
        prop_oneof![4 => Just(false), 1 => Just(true)],
        any::<u8>(),
    )
        .prop_flat_map(move |(from, to, each, kind)| {
            let lf = match &from {
                QIds::Ids(v) => v.len(),
                _ => 2,
            };
            let lt = match &to {
                QIds::Ids(v) => v.len(),
                _ => 2,
            };
            let n = if each || lf != lt { lf * lt } else { lf };
            let values: BoxedStrategy<QVals> = if !p.values_on_insert {
                Just(QVals::Single(vec![])).boxed()
            } else if kind % 3 == 0 {
                prop::collection::vec(kv_list(&p, 2), n.saturating_sub(1)..=n + 1)
                    .prop_map(QVals::Multi)
                    .boxed()
            } else {
                kv_list(&p, 2).prop_map(QVals::Single).boxed()
            };
            (Just(from), Just(to), Just(each), values)
        })
        .prop_map(|(from, to, each, values)| CQuery::InsertEdges {
            from,
            to,
            ids: QIds::Ids(vec![]),
            values,
            each,
        })
        .boxed()
}

pub fn q_insert_edges_ids(p: &Profile) -> BoxedStrategy<CQuery> {
    let p = p.clone();
    (prop::collection::vec(edge_ref(&p), 1..3), any::<bool>())
        .prop_flat_map(move |(ids, multi)| {
            let n = ids.len();
            let values: BoxedStrategy<QVals> = if multi {
                prop::collection::vec(kv_list(&p, 3), n.saturating_sub(1)..=n + 1)
                    .prop_map(QVals::Multi)
                    .boxed()
            } else {
                kv_list(&p, 3).prop_map(QVals::Single).boxed()
            };
            (Just(ids), values)
        })
        .prop_map(|(ids, values)| CQuery::InsertEdges {
            from: QIds::Ids(vec![]),
            to: QIds::Ids(vec![]),
            ids: QIds::Ids(ids),
            values,
            each: false,
        })
        .boxed()
}

pub fn q_insert_aliases(p: &Profile) -> BoxedStrategy<CQuery> {
    let target: BoxedStrategy<QId> = if p.alias_on_edge {
        prop_oneof![6 => node_ref(p), 1 => any::<u16>().prop_map(QId::SelEdge)].boxed()
    } else {
        // exclude edge ids by construction
        let (ok, bad) = weighted(p.invalid_pct);
        prop_oneof![
            ok * 4 => any::<u16>().prop_map(QId::SelNode),
            ok => any::<u16>().prop_map(QId::SelAlias),
            bad => prop_oneof![
                (0u8..3).prop_map(|k| QId::Missing(k, true)),
                Just(QId::Id(0)),
                (0usize..6).prop_map(|i| QId::Alias(alias_pool()[i].clone())),
            ],
        ]
        .boxed()
    };
    (prop::collection::vec((target, alias_str(p)), 1..3), prop_oneof![9 => Just(0i8), 1 => Just(1i8), 1 => Just(-1i8)])
        .prop_map(|(pairs, skew)| {
            let ids: Vec<QId> = pairs.iter().map(|(i, _)| i.clone()).collect();
            let mut aliases: Vec<String> = pairs.iter().map(|(_, a)| a.clone()).collect();
            if skew > 0 {
                aliases.push("c".into());
            } else if skew < 0 && aliases.len() > 1 {
                aliases.pop();
            }
            CQuery::InsertAliases {
                ids: QIds::Ids(ids),
                aliases,
            }
        })
        .boxed()
}

pub fn q_insert_values(p: &Profile) -> BoxedStrategy<CQuery> {
    let p = p.clone();
    let p3 = p.clone();
    let target = prop_oneof![
        10 => elem_ref(&p),
        1 => Just(QId::Id(0)),
        1 => alias_str(&p).prop_map(QId::Alias),
    ];
    (
        prop_oneof![5 => prop::collection::vec(target, 1..4).prop_map(QIds::Ids), 1 => safe_search(&p, false).prop_map(|s| QIds::Search(Box::new(s)))],
        any::<bool>(),
    )
        .prop_flat_map(move |(ids, multi)| {
            let n = match &ids {
                QIds::Ids(v) => v.len(),
                _ => 2,
            };
            let values: BoxedStrategy<QVals> = if multi {
                prop::collection::vec(kv_list(&p3, 3), n.saturating_sub(1)..=n + 1)
                    .prop_map(QVals::Multi)
                    .boxed()
            } else {
                kv_list(&p3, 4).prop_map(QVals::Single).boxed()
            };
            (Just(ids), values)
        })
        .prop_map(|(ids, values)| CQuery::InsertValues { ids, values })
        .boxed()
}

pub fn q_remove(p: &Profile) -> BoxedStrategy<CQuery> {
    ids_of(p, elem_ref(p), 3, false).prop_map(CQuery::Remove).boxed()
}

pub fn q_remove_values(p: &Profile) -> BoxedStrategy<CQuery> {
    (ids_of(p, elem_ref(p), 3, false), distinct_keys(3))
        .prop_map(|(ids, keys)| CQuery::RemoveValues { ids, keys })
        .boxed()
}

pub fn q_read(p: &Profile) -> BoxedStrategy<CQuery> {
    prop_oneof![
        4 => ids_of(p, elem_ref(p), 3, false).prop_map(|ids| CQuery::SelectValues { ids, keys: vec![] }),
        3 => (prop::collection::vec(elem_ref(p), 1..3), distinct_keys(3)).prop_map(|(ids, keys)| CQuery::SelectValues { ids: QIds::Ids(ids), keys }),
        // a requested key list may name a key twice (any order): it must still succeed when every key exists
        1 => (prop::collection::vec(elem_ref(p), 1..3), prop::collection::vec(0usize..8, 2..5)).prop_map(|(ids, ks)| CQuery::SelectValues { ids: QIds::Ids(ids), keys: ks.into_iter().map(|k| key_pool()[k].clone()).collect() }),
        1 => (safe_search(p, false), distinct_keys(2)).prop_map(|(s, keys)| CQuery::SelectValues { ids: QIds::Search(Box::new(s)), keys }),
        2 => ids_of(p, elem_ref(p), 3, false).prop_map(CQuery::SelectKeys),
        2 => ids_of(p, elem_ref(p), 3, false).prop_map(CQuery::SelectKeyCount),
        2 => ids_of(p, node_ref(p), 3, true).prop_map(CQuery::SelectAliases),
        1 => Just(CQuery::SelectAllAliases),
        2 => (ids_of(p, any::<u16>().prop_map(QId::SelNode).boxed(), 3, true), any::<bool>(), any::<bool>()).prop_map(|(ids, from, to)| CQuery::SelectEdgeCount { ids, from, to }),
        1 => Just(CQuery::SelectIndexes),
        1 => Just(CQuery::SelectNodeCount),
        3 => safe_search(p, false).prop_map(CQuery::Search),
        2 => ((0usize..8), a_value(p)).prop_map(|(k, v)| CQuery::Search(CSearch::index(key_pool()[k].clone(), v))),
    ]
    .boxed()
}

pub fn q_mut(p: &Profile) -> BoxedStrategy<CQuery> {
    let mut alts: Vec<(u32, BoxedStrategy<CQuery>)> = vec![];
    let mut add = |w: u32, s: BoxedStrategy<CQuery>| {
        if w > 0 {
            alts.push((w, s));
        }
    };
    add(p.w_insert_nodes, q_insert_nodes(p));
    add(p.w_insert_nodes_ids, q_insert_nodes_ids(p));
    add(p.w_insert_edges, q_insert_edges(p));
    add(p.w_insert_edges_ids, q_insert_edges_ids(p));
    add(p.w_insert_aliases, q_insert_aliases(p));
    add(p.w_insert_values, q_insert_values(p));
    add(p.w_insert_index, (0usize..8).prop_map(|k| CQuery::InsertIndex(key_pool()[k].clone())).boxed());
    add(p.w_remove, q_remove(p));
    add(
        p.w_remove_aliases,
        prop::collection::vec((0usize..6).prop_map(|i| alias_pool()[i].clone()), 1..3)
            .prop_map(CQuery::RemoveAliases)
            .boxed(),
    );
    add(p.w_remove_values, q_remove_values(p));
    add(p.w_remove_index, (0usize..8).prop_map(|k| CQuery::RemoveIndex(key_pool()[k].clone())).boxed());
    proptest::strategy::Union::new_weighted(alts).boxed()
}

#[derive(Clone, Debug, Serialize, Deserialize, PartialEq, Eq, Hash)]
pub enum Step {
    Q(CQuery),
    /// a mutable transaction; `fail_after = Some(k)`: the closure returns Err after k queries
    Tx { queries: Vec<CQuery>, fail_after: Option<u8> },
}

pub fn step(p: &Profile) -> BoxedStrategy<Step> {
    let mut alts: Vec<(u32, BoxedStrategy<Step>)> = vec![];
    let wm = p.w_insert_nodes
        + p.w_insert_nodes_ids
        + p.w_insert_edges
        + p.w_insert_edges_ids
        + p.w_insert_aliases
        + p.w_insert_values
        + p.w_insert_index
        + p.w_remove
        + p.w_remove_aliases
        + p.w_remove_values
        + p.w_remove_index;
    alts.push((wm.max(1), q_mut(p).prop_map(Step::Q).boxed()));
    if p.w_reads > 0 {
        alts.push((p.w_reads, q_read(p).prop_map(Step::Q).boxed()));
    }
    if p.w_tx > 0 {
        alts.push((
            p.w_tx,
            (prop::collection::vec(q_mut(p), 1..6), prop_oneof![1 => Just(None), 2 => (0u8..6).prop_map(Some)])
                .prop_map(|(queries, fail_after)| Step::Tx { queries, fail_after })
                .boxed(),
        ));
    }
    proptest::strategy::Union::new_weighted(alts).boxed()
}

pub fn history(p: &Profile, min: usize, max: usize) -> BoxedStrategy<Vec<Step>> {
    // a short constructive prelude makes sure there is something to refer to
    let prelude = Step::Q(CQuery::InsertNodes {
        count: 3,
        values: QVals::Single(vec![]),
        aliases: vec![],
        ids: QIds::Ids(vec![]),
    });
    let pct = p.grow_shrink_pct;
    (prop::collection::vec(step(p), min..=max), 0u32..100, 61usize..=75, any::<u16>(), any::<u16>(), 0usize..=8)
        .prop_map(move |(mut v, dice, k, at1, at2, keep)| {
            v.insert(0, prelude.clone());
            if dice < pct {
                let names: Vec<String> = (0..k).map(|i| format!("g{i}")).collect();
                let key = crate::val::key_pool()[0].clone();
                let grow = vec![
                    Step::Q(CQuery::InsertIndex(key.clone())),
                    Step::Q(CQuery::InsertNodes {
                        count: 0,
                        values: QVals::Multi((0..k).map(|i| vec![(key.clone(), Val::I64(1000 + i as i64))]).collect()),
                        aliases: names.clone(),
                        ids: QIds::Ids(vec![]),
                    }),
                ];
                // most of them go again later: nodes, aliases and index entries
                let gone: Vec<QId> = names.iter().take(k - keep.min(k - 1)).map(|n| QId::Alias(n.clone())).collect();
                let shrink = Step::Q(CQuery::Remove(QIds::Ids(gone)));
                let p1 = 1 + crate::core::pick(at1, v.len());
                for (i, s) in grow.into_iter().enumerate() {
                    v.insert((p1 + i).min(v.len()), s);
                }
                let p2 = p1 + 2 + crate::core::pick(at2, v.len() - (p1 + 1).min(v.len()) + 1);
                v.insert(p2.min(v.len()), shrink);
            }
            v
        })
        .boxed()
}

// ---------------------------------------------------------------------------------------
// full condition generator (C15, C16, C17, C18)

#[derive(Clone, Debug)]
pub struct CondProfile {
    pub distance: bool,
    pub depth: u32,
    /// ordering comparisons between values of different types (C15 trigger)
    pub cross_type_ordering: bool,
}

pub fn count_cmp(max: u64) -> BoxedStrategy<CountCmp> {
    (0u8..6, 0u64..=max)
        .prop_map(|(k, n)| match k {
            0 => CountCmp::Eq(n),
            1 => CountCmp::Gt(n),
            2 => CountCmp::Ge(n),
            3 => CountCmp::Lt(n),
            4 => CountCmp::Le(n),
            _ => CountCmp::Ne(n),
        })
        .boxed()
}

/// operands from the mixed-type pool plus pieces that make contains/starts/ends interesting
pub fn cmp_operand() -> BoxedStrategy<Val> {
    prop_oneof![
        10 => (0usize..16).prop_map(|i| value_pool()[i].clone()),
        2 => prop::sample::select(vec![
            Val::Str("abc".into()), Val::Str("efg".into()), Val::Str("cd".into()), Val::Str("".into()),
            Val::VStr(vec!["ab".into()]), Val::VStr(vec!["bc".into(), "ef".into()]), Val::VStr(vec!["abc".into(), "defg".into()]),
            Val::I64(1), Val::I64(9), Val::VI64(vec![1, 5]), Val::VI64(vec![5, 9]), Val::VI64(vec![]),
            Val::F64(5.0f64.to_bits()), Val::F64(f64::NAN.to_bits()), Val::VF64(vec![5.0f64.to_bits()]),
            Val::I64(6), Val::I64(4), Val::U64(4), Val::U64(6), Val::F64(4.5f64.to_bits()), Val::Str("4".into()), Val::Str("6".into()),
        ]),
        1 => any_val(),
    ]
    .boxed()
}

pub fn comparison() -> BoxedStrategy<Cmp> {
    (0u8..9, cmp_operand())
        .prop_map(|(k, v)| match k {
            0 => Cmp::Eq(v),
            1 => Cmp::Gt(v),
            2 => Cmp::Ge(v),
            3 => Cmp::Lt(v),
            4 => Cmp::Le(v),
            5 => Cmp::Ne(v),
            6 => Cmp::Contains(v),
            7 => Cmp::StartsWith(v),
            _ => Cmp::EndsWith(v),
        })
        .boxed()
}

fn leaf_data(cp: &CondProfile) -> BoxedStrategy<CData> {
    let mut alts: Vec<(u32, BoxedStrategy<CData>)> = vec![
        (3, Just(CData::Node).boxed()),
        (3, Just(CData::Edge).boxed()),
        (2, count_cmp(4).prop_map(CData::EdgeCount).boxed()),
        (2, count_cmp(3).prop_map(CData::EdgeCountFrom).boxed()),
        (2, count_cmp(3).prop_map(CData::EdgeCountTo).boxed()),
        (
            3,
            prop::collection::vec(
                prop_oneof![
                    4 => any::<u16>().prop_map(QId::SelElem),
                    1 => any::<u16>().prop_map(QId::SelAlias),
                    1 => (0usize..6).prop_map(|i| QId::Alias(alias_pool()[i].clone())),
                    1 => (0u8..3, any::<bool>()).prop_map(|(k, n)| QId::Missing(k, n)),
                ],
                1..4,
            )
            .prop_map(CData::Ids)
            .boxed(),
        ),
        (8, ((0usize..8), comparison()).prop_map(|(k, c)| CData::KeyValue(key_pool()[k].clone(), c)).boxed()),
        (3, distinct_keys(3).prop_map(CData::Keys).boxed()),
    ];
    if cp.distance {
        alts.push((4, count_cmp(5).prop_map(CData::Distance).boxed()));
    }
    proptest::strategy::Union::new_weighted(alts).boxed()
}

pub fn modifier() -> BoxedStrategy<Modifier> {
    prop_oneof![5 => Just(Modifier::None), 2 => Just(Modifier::Not), 1 => Just(Modifier::Beyond), 1 => Just(Modifier::NotBeyond)].boxed()
}

pub fn logic() -> BoxedStrategy<Logic> {
    prop_oneof![3 => Just(Logic::And), 2 => Just(Logic::Or)].boxed()
}

pub fn cond_list(cp: &CondProfile, depth: u32) -> BoxedStrategy<Vec<CCond>> {
    let leaf = leaf_data(cp);
    let data: BoxedStrategy<CData> = if depth == 0 {
        leaf
    } else {
        let inner = cond_list(cp, depth - 1);
        prop_oneof![5 => leaf, 1 => inner.prop_map(CData::Where)].boxed()
    };
    prop::collection::vec((logic(), modifier(), data), 1..=4)
        .prop_map(|v| v.into_iter().map(|(logic, modifier, data)| CCond { logic, modifier, data }).collect())
        .boxed()
}

pub fn has_cross_type_ordering(conds: &[CCond]) -> bool {
    conds.iter().any(|c| match &c.data {
        CData::KeyValue(_, Cmp::Gt(_) | Cmp::Ge(_) | Cmp::Lt(_) | Cmp::Le(_)) => true,
        CData::Where(w) => has_cross_type_ordering(w),
        _ => false,
    })
}
