//! Reference database (DESIGN 2.3) and reference search semantics (DESIGN 2.4), written from
//! the documentation (appendix B of DESIGN.md lists every rule and its source).
use crate::core::pick;
use crate::query::*;
use crate::val::Val;
use agdb::QueryResult;
use serde::{Deserialize, Serialize};
use std::collections::{BTreeMap, BTreeSet, VecDeque};

#[derive(Clone, Debug, Default, PartialEq)]
pub struct RNode {
    /// outgoing edge ids, most recently connected first
    pub out: Vec<i64>,
    /// incoming edge ids, most recently connected first
    pub inc: Vec<i64>,
}

#[derive(Clone, Debug, Default, PartialEq)]
pub struct RefDb {
    pub nodes: BTreeMap<i64, RNode>,
    pub edges: BTreeMap<i64, (i64, i64)>,
    pub values: BTreeMap<i64, Vec<(Val, Val)>>,
    pub aliases: BTreeMap<String, i64>,
    pub indexes: BTreeSet<Val>,
    /// slots (|id|) that were used once and are free now
    pub freed: BTreeSet<i64>,
    pub max_slot: i64,
    /// statistics for non-trivial rules
    pub stats: ModelStats,
}

#[derive(Clone, Debug, Default, PartialEq)]
pub struct ModelStats {
    pub ids_reused: u64,
    pub reused_other_kind: u64,
    pub reused_had_values: u64,
    pub nodes_removed_with_2_edges: u64,
    pub replaced_non_last: u64,
    pub replaced_indexed: u64,
    pub alias_steals: u64,
    pub alias_realias: u64,
    pub aliased_node_removed: u64,
    pub cascade_indexed_edge: u64,
    pub slots_freed: u64,
    pub out_of_line_values: u64,
    pub failed_queries: u64,
    /// primitive mutations applied so far / applied by the last failing query before its error
    pub mutations: u64,
    pub last_failed_mutations: u64,
    freed_kind: BTreeMap<i64, (bool, bool)>, // slot -> (was node, had values)
}

/// Predicted outcome of a query.
#[derive(Clone, Debug, PartialEq)]
pub enum Pred {
    Ok(Exp),
    /// the documentation / property says the query fails; the string names the rule
    Err(String),
    /// nothing is predicted (the documentation is silent); model state was updated from the result
    Silent,
}

#[derive(Clone, Debug, PartialEq, Default)]
pub struct Exp {
    pub result: u64,
    pub elements: Vec<ExpElem>,
    /// compare elements as a multiset
    pub unordered: bool,
    /// the query must succeed and return these elements, but which pairs it returns per element
    /// is not documented (a selection by keys that names a key twice): values are not compared
    pub values_unchecked: bool,
}

#[derive(Clone, Debug, PartialEq, Eq, PartialOrd, Ord, Serialize, Deserialize)]
pub struct ExpElem {
    pub id: i64,
    pub from: i64,
    pub to: i64,
    pub values: Vec<(Val, Val)>,
}

/// A problem with ids handed out by the implementation (checked while adopting them).
#[derive(Clone, Debug)]
pub struct AdoptError(pub String);

pub fn actual_elems(r: &QueryResult) -> Vec<ExpElem> {
    r.elements
        .iter()
        .map(|e| ExpElem {
            id: e.id.0,
            from: e.from.0,
            to: e.to.0,
            values: e
                .values
                .iter()
                .map(|kv| (Val::from_db(&kv.key), Val::from_db(&kv.value)))
                .collect(),
        })
        .collect()
}

struct Adopt<'a> {
    actual: Option<&'a QueryResult>,
    errors: Vec<String>,
}

impl Adopt<'_> {
    /// id of the element at position `pos` of the actual result, if any
    fn at(&self, pos: usize) -> Option<i64> {
        self.actual.and_then(|r| r.elements.get(pos)).map(|e| e.id.0)
    }
}

impl RefDb {
    pub fn slot_in_use(&self, slot: i64) -> bool {
        self.nodes.contains_key(&slot) || self.edges.contains_key(&-slot)
    }

    pub fn exists(&self, id: i64) -> bool {
        if id > 0 {
            self.nodes.contains_key(&id)
        } else if id < 0 {
            self.edges.contains_key(&id)
        } else {
            false
        }
    }

    pub fn all_ids(&self) -> Vec<i64> {
        let mut v: Vec<i64> = self.nodes.keys().cloned().chain(self.edges.keys().cloned()).collect();
        v.sort_by_key(|i| i.abs());
        v
    }

    pub fn first_out(&self, id: i64) -> i64 {
        if id < 0 {
            self.edges.get(&id).map(|e| e.0).unwrap_or(0)
        } else {
            self.nodes.get(&id).and_then(|n| n.out.first().cloned()).unwrap_or(0)
        }
    }

    pub fn first_in(&self, id: i64) -> i64 {
        if id < 0 {
            self.edges.get(&id).map(|e| e.1).unwrap_or(0)
        } else {
            self.nodes.get(&id).and_then(|n| n.inc.first().cloned()).unwrap_or(0)
        }
    }

    pub fn elem(&self, id: i64, values: Vec<(Val, Val)>) -> ExpElem {
        ExpElem {
            id,
            from: self.first_out(id),
            to: self.first_in(id),
            values,
        }
    }

    pub fn vals(&self, id: i64) -> Vec<(Val, Val)> {
        self.values.get(&id).cloned().unwrap_or_default()
    }

    pub fn alias_of(&self, id: i64) -> Option<String> {
        self.aliases.iter().find(|(_, v)| **v == id).map(|(k, _)| k.clone())
    }

    // -------------------------------------------------------------------------------
    // selectors

    pub fn resolve_id(&self, q: &QId) -> QId {
        match q {
            QId::Id(_) | QId::Alias(_) => q.clone(),
            QId::SelNode(s) => {
                let v: Vec<i64> = self.nodes.keys().cloned().collect();
                if v.is_empty() {
                    QId::Id(self.max_slot + 1000)
                } else {
                    QId::Id(v[pick(*s, v.len())])
                }
            }
            QId::SelEdge(s) => {
                let v: Vec<i64> = self.edges.keys().cloned().collect();
                if v.is_empty() {
                    QId::Id(-(self.max_slot + 1000))
                } else {
                    QId::Id(v[pick(*s, v.len())])
                }
            }
            QId::SelElem(s) => {
                let v = self.all_ids();
                if v.is_empty() {
                    QId::Id(self.max_slot + 1000)
                } else {
                    QId::Id(v[pick(*s, v.len())])
                }
            }
            QId::SelAlias(s) => {
                let v: Vec<&String> = self.aliases.keys().collect();
                if v.is_empty() {
                    QId::Alias("no-such-alias".into())
                } else {
                    QId::Alias(v[pick(*s, v.len())].clone())
                }
            }
            QId::SelRemoved(s) => {
                let v: Vec<i64> = self.freed.iter().cloned().collect();
                if v.is_empty() {
                    QId::Id(self.max_slot + 2000)
                } else {
                    let slot = v[pick(*s, v.len())];
                    QId::Id(if s % 2 == 0 { slot } else { -slot })
                }
            }
            QId::Missing(k, node) => {
                let slot = self.max_slot + 1000 + *k as i64;
                QId::Id(if *node { slot } else { -slot })
            }
        }
    }

    pub fn resolve_ids(&self, q: &QIds) -> QIds {
        match q {
            QIds::Ids(v) => QIds::Ids(v.iter().map(|i| self.resolve_id(i)).collect()),
            QIds::Search(s) => QIds::Search(Box::new(self.resolve_search(s))),
        }
    }

    fn resolve_cond(&self, c: &CCond) -> CCond {
        CCond {
            logic: c.logic,
            modifier: c.modifier,
            data: match &c.data {
                CData::Ids(v) => CData::Ids(v.iter().map(|i| self.resolve_id(i)).collect()),
                CData::Where(w) => CData::Where(w.iter().map(|c| self.resolve_cond(c)).collect()),
                other => other.clone(),
            },
        }
    }

    pub fn resolve_search(&self, s: &CSearch) -> CSearch {
        CSearch {
            algo: s.algo,
            origin: self.resolve_id(&s.origin),
            destination: self.resolve_id(&s.destination),
            limit: s.limit,
            offset: s.offset,
            order_by: s.order_by.clone(),
            conditions: s.conditions.iter().map(|c| self.resolve_cond(c)).collect(),
        }
    }

    pub fn resolve(&self, q: &CQuery) -> CQuery {
        match q {
            CQuery::InsertNodes {
                count,
                values,
                aliases,
                ids,
            } => CQuery::InsertNodes {
                count: *count,
                values: values.clone(),
                aliases: aliases.clone(),
                ids: self.resolve_ids(ids),
            },
            CQuery::InsertEdges {
                from,
                to,
                ids,
                values,
                each,
            } => CQuery::InsertEdges {
                from: self.resolve_ids(from),
                to: self.resolve_ids(to),
                ids: self.resolve_ids(ids),
                values: values.clone(),
                each: *each,
            },
            CQuery::InsertAliases { ids, aliases } => CQuery::InsertAliases {
                ids: self.resolve_ids(ids),
                aliases: aliases.clone(),
            },
            CQuery::InsertValues { ids, values } => CQuery::InsertValues {
                ids: self.resolve_ids(ids),
                values: values.clone(),
            },
            CQuery::Remove(ids) => CQuery::Remove(self.resolve_ids(ids)),
            CQuery::RemoveValues { ids, keys } => CQuery::RemoveValues {
                ids: self.resolve_ids(ids),
                keys: keys.clone(),
            },
            CQuery::SelectValues { ids, keys } => CQuery::SelectValues {
                ids: self.resolve_ids(ids),
                keys: keys.clone(),
            },
            CQuery::SelectKeys(ids) => CQuery::SelectKeys(self.resolve_ids(ids)),
            CQuery::SelectKeyCount(ids) => CQuery::SelectKeyCount(self.resolve_ids(ids)),
            CQuery::SelectAliases(ids) => CQuery::SelectAliases(self.resolve_ids(ids)),
            CQuery::SelectEdgeCount { ids, from, to } => CQuery::SelectEdgeCount {
                ids: self.resolve_ids(ids),
                from: *from,
                to: *to,
            },
            CQuery::Search(s) => CQuery::Search(self.resolve_search(s)),
            other => other.clone(),
        }
    }

    // -------------------------------------------------------------------------------
    // id resolution inside the model

    fn db_id(&self, q: &QId) -> Option<i64> {
        match q {
            QId::Id(i) => {
                if self.exists(*i) {
                    Some(*i)
                } else {
                    None
                }
            }
            QId::Alias(a) => self.aliases.get(a).cloned(),
            _ => None,
        }
    }

    fn ids_of(&self, q: &QIds) -> Result<Vec<i64>, String> {
        match q {
            QIds::Ids(v) => v
                .iter()
                .map(|i| self.db_id(i).ok_or_else(|| format!("unknown id {i:?}")))
                .collect(),
            QIds::Search(s) => self.search(s),
        }
    }

    // -------------------------------------------------------------------------------
    // primitive mutations

    fn adopt_new(&mut self, id: Option<i64>, node: bool, errors: &mut Vec<String>) -> i64 {
        let fallback = if node { self.max_slot + 1 } else { -(self.max_slot + 1) };
        let id = match id {
            Some(i) => i,
            None => fallback,
        };
        let mut ok = true;
        if node && id <= 0 {
            errors.push(format!("new node received non-positive id {id}"));
            ok = false;
        }
        if !node && id >= 0 {
            errors.push(format!("new edge received non-negative id {id}"));
            ok = false;
        }
        if ok && self.slot_in_use(id.abs()) {
            errors.push(format!("new element received id {id} whose slot is in use"));
            ok = false;
        }
        let id = if ok { id } else { fallback };
        let slot = id.abs();
        if self.freed.remove(&slot) {
            self.stats.ids_reused += 1;
            if let Some((was_node, had_values)) = self.stats.freed_kind.remove(&slot) {
                if was_node != node {
                    self.stats.reused_other_kind += 1;
                }
                if had_values {
                    self.stats.reused_had_values += 1;
                }
            }
        }
        self.max_slot = self.max_slot.max(slot);
        id
    }

    fn new_node(&mut self, id: Option<i64>, errors: &mut Vec<String>) -> i64 {
        self.stats.mutations += 1;
        let id = self.adopt_new(id, true, errors);
        self.nodes.insert(id, RNode::default());
        id
    }

    fn new_edge(&mut self, id: Option<i64>, from: i64, to: i64, errors: &mut Vec<String>) -> i64 {
        self.stats.mutations += 1;
        let id = self.adopt_new(id, false, errors);
        self.edges.insert(id, (from, to));
        self.nodes.get_mut(&from).unwrap().out.insert(0, id);
        self.nodes.get_mut(&to).unwrap().inc.insert(0, id);
        id
    }

    fn free_slot(&mut self, id: i64) {
        let had_values = self.values.get(&id).map(|v| !v.is_empty()).unwrap_or(false);
        self.values.remove(&id);
        self.freed.insert(id.abs());
        self.stats.freed_kind.insert(id.abs(), (id > 0, had_values));
        self.stats.slots_freed += 1;
    }

    fn remove_edge(&mut self, id: i64) {
        if let Some((from, to)) = self.edges.remove(&id) {
            if let Some(n) = self.nodes.get_mut(&from) {
                n.out.retain(|e| *e != id);
            }
            if let Some(n) = self.nodes.get_mut(&to) {
                n.inc.retain(|e| *e != id);
            }
            if self
                .values
                .get(&id)
                .map(|v| v.iter().any(|(k, _)| self.indexes.contains(k)))
                .unwrap_or(false)
            {
                self.stats.cascade_indexed_edge += 1;
            }
            self.free_slot(id);
        }
    }

    fn remove_elem(&mut self, id: i64) -> bool {
        if self.exists(id) {
            self.stats.mutations += 1;
        }
        if id < 0 {
            if self.edges.contains_key(&id) {
                // counted as explicit removal, not cascade
                let had = self.stats.cascade_indexed_edge;
                self.remove_edge(id);
                self.stats.cascade_indexed_edge = had;
                return true;
            }
            false
        } else if let Some(n) = self.nodes.get(&id).cloned() {
            let mut es: Vec<i64> = n.out.clone();
            for e in &n.inc {
                if !es.contains(e) {
                    es.push(*e);
                }
            }
            if es.len() >= 2 {
                self.stats.nodes_removed_with_2_edges += 1;
            }
            for e in es {
                self.remove_edge(e);
            }
            if let Some(a) = self.alias_of(id) {
                self.aliases.remove(&a);
                self.stats.aliased_node_removed += 1;
            }
            self.nodes.remove(&id);
            self.free_slot(id);
            true
        } else {
            false
        }
    }

    fn upsert_value(&mut self, id: i64, k: &Val, v: &Val) {
        self.stats.mutations += 1;
        if v.payload_len() > 15 || k.payload_len() > 15 {
            self.stats.out_of_line_values += 1;
        }
        let indexed = self.indexes.contains(k);
        let vals = self.values.entry(id).or_default();
        let n = vals.len();
        if let Some(pos) = vals.iter().position(|(kk, _)| kk == k) {
            if pos + 1 < n {
                self.stats.replaced_non_last += 1;
            }
            if indexed {
                self.stats.replaced_indexed += 1;
            }
            vals[pos].1 = v.clone();
        } else {
            vals.push((k.clone(), v.clone()));
        }
    }

    fn set_alias(&mut self, id: i64, alias: &str) {
        self.stats.mutations += 1;
        if let Some(holder) = self.aliases.get(alias).cloned() {
            if holder != id {
                self.stats.alias_steals += 1;
            }
        }
        if let Some(old) = self.alias_of(id) {
            if old != alias {
                self.stats.alias_realias += 1;
            }
            self.aliases.remove(&old);
        }
        self.aliases.insert(alias.to_string(), id);
    }

    // -------------------------------------------------------------------------------
    // the query semantics

    /// Applies `q` (already resolved) to the model and returns the prediction. `actual` is the
    /// implementation's result; it is only consulted for the ids of newly created elements,
    /// which the documentation does not determine (they are adopted after checking sign and
    /// that the slot is unused). On a predicted error the model is left unchanged.
    pub fn apply(&mut self, q: &CQuery, actual: Option<&QueryResult>) -> (Pred, Vec<String>) {
        let snapshot = self.clone();
        let mut adopt = Adopt {
            actual,
            errors: vec![],
        };
        let pred = match self.apply_inner(q, &mut adopt) {
            Ok(p) => p,
            Err(reason) => {
                let done = self.stats.mutations.saturating_sub(snapshot.stats.mutations);
                *self = snapshot;
                self.stats.last_failed_mutations = done;
                self.stats.failed_queries += 1;
                Pred::Err(reason)
            }
        };
        (pred, adopt.errors)
    }

    fn values_for(values: &QVals, n: usize) -> Result<Vec<Vec<(Val, Val)>>, String> {
        match values {
            QVals::Single(v) => Ok(vec![v.clone(); n]),
            QVals::Multi(m) => {
                if m.len() != n {
                    Err(format!("multi values ({}) must match count ({n})", m.len()))
                } else {
                    Ok(m.clone())
                }
            }
        }
    }

    fn apply_inner(&mut self, q: &CQuery, adopt: &mut Adopt) -> Result<Pred, String> {
        match q {
            CQuery::InsertNodes {
                count,
                values,
                aliases,
                ids,
            } => {
                let target_ids = self.ids_of(ids)?;
                if aliases.iter().any(|a| a.is_empty()) {
                    return Err("empty alias".into());
                }
                if !target_ids.is_empty() {
                    if let Some(e) = target_ids.iter().find(|i| **i < 0) {
                        return Err(format!("insert-or-update nodes given edge id {e}"));
                    }
                    let vals = match values {
                        QVals::Single(v) => vec![v.clone(); target_ids.len()],
                        QVals::Multi(m) => m.clone(),
                    };
                    if vals.len() != target_ids.len() {
                        return Err("values must match ids".into());
                    }
                    if aliases.len() > vals.len() {
                        return Err("more aliases than values".into());
                    }
                    let mut out = vec![];
                    for (i, id) in target_ids.iter().enumerate() {
                        for (k, v) in &vals[i] {
                            self.upsert_value(*id, k, v);
                        }
                        if let Some(a) = aliases.get(i) {
                            self.set_alias(*id, a);
                        }
                        out.push(*id);
                    }
                    let elements = out.iter().map(|i| self.elem(*i, vec![])).collect::<Vec<_>>();
                    return Ok(Pred::Ok(Exp {
                        result: elements.len() as u64,
                        elements,
                        unordered: false,
                        values_unchecked: false,
                    }));
                }
                let n = std::cmp::max(*count as usize, aliases.len());
                let vals: Vec<Vec<(Val, Val)>> = match values {
                    QVals::Single(v) => vec![v.clone(); n],
                    QVals::Multi(m) => m.clone(),
                };
                if vals.len() < aliases.len() {
                    return Err("more aliases than values".into());
                }
                let mut out = vec![];
                for (i, kvs) in vals.iter().enumerate() {
                    if let Some(a) = aliases.get(i) {
                        if let Some(existing) = self.aliases.get(a).cloned() {
                            for (k, v) in kvs {
                                self.upsert_value(existing, k, v);
                            }
                            out.push(existing);
                            continue;
                        }
                    }
                    let id = self.new_node(adopt.at(i), &mut adopt.errors);
                    if let Some(a) = aliases.get(i) {
                        self.set_alias(id, a);
                    }
                    for (k, v) in kvs {
                        self.upsert_value(id, k, v);
                    }
                    out.push(id);
                }
                let elements = out.iter().map(|i| self.elem(*i, vec![])).collect::<Vec<_>>();
                Ok(Pred::Ok(Exp {
                    result: elements.len() as u64,
                    elements,
                    unordered: false,
                    values_unchecked: false,
                }))
            }
            CQuery::InsertEdges {
                from,
                to,
                ids,
                values,
                each,
            } => {
                let target_ids = self.ids_of(ids)?;
                if !target_ids.is_empty() {
                    if let Some(n) = target_ids.iter().find(|i| **i > 0) {
                        return Err(format!("insert-or-update edges given node id {n}"));
                    }
                    let vals = Self::values_for(values, target_ids.len())?;
                    for (id, kvs) in target_ids.iter().zip(&vals) {
                        for (k, v) in kvs {
                            self.upsert_value(*id, k, v);
                        }
                    }
                    let elements = target_ids.iter().map(|i| self.elem(*i, vec![])).collect::<Vec<_>>();
                    return Ok(Pred::Ok(Exp {
                        result: elements.len() as u64,
                        elements,
                        unordered: false,
                        values_unchecked: false,
                    }));
                }
                let mut f = self.ids_of(from)?;
                let mut t = self.ids_of(to)?;
                if matches!(from, QIds::Search(_)) {
                    f.retain(|i| *i > 0);
                }
                if matches!(to, QIds::Search(_)) {
                    t.retain(|i| *i > 0);
                }
                if let Some(e) = f.iter().chain(t.iter()).find(|i| **i < 0) {
                    return Err(format!("edge endpoint {e} is not a node"));
                }
                let pairs: Vec<(i64, i64)> = if *each || f.len() != t.len() {
                    f.iter().flat_map(|a| t.iter().map(move |b| (*a, *b))).collect()
                } else {
                    f.iter().cloned().zip(t.iter().cloned()).collect()
                };
                if pairs.is_empty() {
                    // inserting zero edges: the documentation does not say whether this is
                    // an error; nothing changes either way
                    return Ok(Pred::Silent);
                }
                let vals: Vec<Vec<(Val, Val)>> = match values {
                    QVals::Single(v) => vec![v.clone(); pairs.len()],
                    QVals::Multi(m) => {
                        if m.len() != pairs.len() {
                            return Err("multi values must match edge count".into());
                        }
                        m.clone()
                    }
                };
                let mut out = vec![];
                for (i, ((a, b), kvs)) in pairs.iter().zip(&vals).enumerate() {
                    let id = self.new_edge(adopt.at(i), *a, *b, &mut adopt.errors);
                    for (k, v) in kvs {
                        self.upsert_value(id, k, v);
                    }
                    out.push(id);
                }
                let elements = out.iter().map(|i| self.elem(*i, vec![])).collect::<Vec<_>>();
                Ok(Pred::Ok(Exp {
                    result: elements.len() as u64,
                    elements,
                    unordered: false,
                    values_unchecked: false,
                }))
            }
            CQuery::InsertAliases { ids, aliases } => {
                let ids = match ids {
                    QIds::Ids(v) => v,
                    QIds::Search(_) => return Err("insert aliases with search".into()),
                };
                if ids.len() != aliases.len() {
                    return Err("ids must match aliases".into());
                }
                let mut n = 0;
                for (id, alias) in ids.iter().zip(aliases) {
                    if alias.is_empty() {
                        return Err("empty alias".into());
                    }
                    let id = self.db_id(id).ok_or_else(|| format!("unknown id {id:?}"))?;
                    if id < 0 {
                        return Err("alias on edge id".into());
                    }
                    self.set_alias(id, alias);
                    n += 1;
                }
                Ok(Pred::Ok(Exp {
                    result: n,
                    elements: vec![],
                    unordered: false,
                    values_unchecked: false,
                }))
            }
            CQuery::InsertValues { ids, values } => {
                let mut result = 0u64;
                let mut elements = vec![];
                match ids {
                    QIds::Ids(list) => {
                        let vals = match values {
                            QVals::Single(v) => vec![v.clone(); list.len()],
                            QVals::Multi(m) => {
                                if m.len() != list.len() {
                                    return Err("multi values must match ids".into());
                                }
                                m.clone()
                            }
                        };
                        let mut new_pos = 0usize;
                        for (qid, kvs) in list.iter().zip(&vals) {
                            match self.db_id(qid) {
                                Some(id) => {
                                    for (k, v) in kvs {
                                        self.upsert_value(id, k, v);
                                        result += 1;
                                    }
                                }
                                None => {
                                    let alias = match qid {
                                        QId::Id(0) => None,
                                        QId::Id(i) => return Err(format!("unknown id {i}")),
                                        QId::Alias(a) => Some(a.clone()),
                                        _ => return Err("unresolved".into()),
                                    };
                                    if let Some(a) = &alias {
                                        if a.is_empty() {
                                            return Err("empty alias".into());
                                        }
                                    }
                                    let id = self.new_node(adopt.at(new_pos), &mut adopt.errors);
                                    new_pos += 1;
                                    if let Some(a) = alias {
                                        self.set_alias(id, &a);
                                    }
                                    for (k, v) in kvs {
                                        self.upsert_value(id, k, v);
                                    }
                                    result += kvs.len() as u64;
                                    elements.push(id);
                                }
                            }
                        }
                    }
                    QIds::Search(s) => {
                        let found = self.search(s)?;
                        let vals = match values {
                            QVals::Single(v) => vec![v.clone(); found.len()],
                            QVals::Multi(m) => {
                                if m.len() != found.len() {
                                    return Err("multi values must match ids".into());
                                }
                                m.clone()
                            }
                        };
                        for (id, kvs) in found.iter().zip(&vals) {
                            for (k, v) in kvs {
                                self.upsert_value(*id, k, v);
                                result += 1;
                            }
                        }
                    }
                }
                let elements = elements.iter().map(|i| self.elem(*i, vec![])).collect();
                Ok(Pred::Ok(Exp {
                    result,
                    elements,
                    unordered: false,
                    values_unchecked: false,
                }))
            }
            CQuery::InsertIndex(k) => {
                if self.indexes.contains(k) {
                    return Err("index exists".into());
                }
                self.indexes.insert(k.clone());
                self.stats.mutations += 1;
                let n = self
                    .values
                    .values()
                    .map(|v| v.iter().filter(|(kk, _)| kk == k).count() as u64)
                    .sum();
                Ok(Pred::Ok(Exp {
                    result: n,
                    elements: vec![],
                    unordered: false,
                    values_unchecked: false,
                }))
            }
            CQuery::RemoveIndex(k) => {
                let n = if self.indexes.remove(k) {
                    self.values
                        .values()
                        .map(|v| v.iter().filter(|(kk, _)| kk == k).count() as u64)
                        .sum()
                } else {
                    0
                };
                Ok(Pred::Ok(Exp {
                    result: n,
                    elements: vec![],
                    unordered: false,
                    values_unchecked: false,
                }))
            }
            CQuery::Remove(ids) => {
                let mut n = 0;
                match ids {
                    QIds::Ids(list) => {
                        for q in list {
                            if let Some(id) = self.db_id(q) {
                                if self.remove_elem(id) {
                                    n += 1;
                                }
                            }
                        }
                    }
                    QIds::Search(s) => {
                        for id in self.search(s)? {
                            if self.remove_elem(id) {
                                n += 1;
                            }
                        }
                    }
                }
                Ok(Pred::Ok(Exp {
                    result: n,
                    elements: vec![],
                    unordered: false,
                    values_unchecked: false,
                }))
            }
            CQuery::RemoveAliases(list) => {
                let mut n = 0;
                for a in list {
                    if self.aliases.remove(a).is_some() {
                        self.stats.mutations += 1;
                        n += 1;
                    }
                }
                Ok(Pred::Ok(Exp {
                    result: n,
                    elements: vec![],
                    unordered: false,
                    values_unchecked: false,
                }))
            }
            CQuery::RemoveValues { ids, keys } => {
                let ids = self.ids_of(ids)?;
                let mut n = 0;
                for id in ids {
                    if let Some(v) = self.values.get_mut(&id) {
                        let before = v.len();
                        v.retain(|(k, _)| !keys.contains(k));
                        n += (before - v.len()) as u64;
                        self.stats.mutations += (before - v.len()) as u64;
                    }
                }
                Ok(Pred::Ok(Exp {
                    result: n,
                    elements: vec![],
                    unordered: false,
                    values_unchecked: false,
                }))
            }
            CQuery::SelectValues { ids, keys } => {
                let is_search = matches!(ids, QIds::Search(_));
                let ids = self.ids_of(ids)?;
                let mut elements = vec![];
                let mut silent = false;
                for id in &ids {
                    let all = self.vals(*id);
                    let vals = if keys.is_empty() {
                        all
                    } else {
                        let mut out = vec![];
                        for k in keys {
                            match all.iter().find(|(kk, _)| kk == k) {
                                Some(kv) => out.push(kv.clone()),
                                None => {
                                    if is_search {
                                        // documentation silent about missing keys with search ids
                                        silent = true;
                                    } else {
                                        return Err(format!("key {k:?} missing on explicit id {id}"));
                                    }
                                }
                            }
                        }
                        out
                    };
                    elements.push(self.elem(*id, vals));
                }
                if silent {
                    return Ok(Pred::Silent);
                }
                let repeated = keys.iter().enumerate().any(|(i, k)| keys[..i].contains(k));
                Ok(Pred::Ok(Exp {
                    result: elements.len() as u64,
                    elements,
                    unordered: false,
                    values_unchecked: repeated,
                }))
            }
            CQuery::SelectKeys(ids) => {
                let ids = self.ids_of(ids)?;
                let elements: Vec<ExpElem> = ids
                    .iter()
                    .map(|id| {
                        let v = self
                            .vals(*id)
                            .into_iter()
                            .map(|(k, _)| (k, Val::I64(0)))
                            .collect();
                        self.elem(*id, v)
                    })
                    .collect();
                Ok(Pred::Ok(Exp {
                    result: elements.len() as u64,
                    elements,
                    unordered: false,
                    values_unchecked: false,
                }))
            }
            CQuery::SelectKeyCount(ids) => {
                let ids = self.ids_of(ids)?;
                let mut total = 0;
                let elements: Vec<ExpElem> = ids
                    .iter()
                    .map(|id| {
                        let n = self.vals(*id).len() as u64;
                        total += n;
                        self.elem(*id, vec![(Val::Str("key_count".into()), Val::U64(n))])
                    })
                    .collect();
                Ok(Pred::Ok(Exp {
                    result: total,
                    elements,
                    unordered: false,
                    values_unchecked: false,
                }))
            }
            CQuery::SelectAliases(ids) => match ids {
                QIds::Ids(list) => {
                    let mut elements = vec![];
                    for q in list {
                        let id = self.db_id(q).ok_or_else(|| format!("unknown id {q:?}"))?;
                        let alias = self.alias_of(id).ok_or_else(|| format!("id {id} has no alias"))?;
                        elements.push(self.elem(id, vec![(Val::Str("alias".into()), Val::Str(alias))]));
                    }
                    Ok(Pred::Ok(Exp {
                        result: elements.len() as u64,
                        elements,
                        unordered: false,
                        values_unchecked: false,
                    }))
                }
                QIds::Search(s) => {
                    let mut elements = vec![];
                    for id in self.search(s)? {
                        if let Some(alias) = self.alias_of(id) {
                            elements.push(self.elem(id, vec![(Val::Str("alias".into()), Val::Str(alias))]));
                        }
                    }
                    Ok(Pred::Ok(Exp {
                        result: elements.len() as u64,
                        elements,
                        unordered: false,
                        values_unchecked: false,
                    }))
                }
            },
            CQuery::SelectAllAliases => {
                let elements: Vec<ExpElem> = self
                    .aliases
                    .iter()
                    .map(|(a, id)| self.elem(*id, vec![(Val::Str("alias".into()), Val::Str(a.clone()))]))
                    .collect();
                Ok(Pred::Ok(Exp {
                    result: elements.len() as u64,
                    elements,
                    unordered: true,
                    values_unchecked: false,
                }))
            }
            CQuery::SelectEdgeCount { ids, from, to } => {
                let ids = self.ids_of(ids)?;
                let mut total = 0;
                let elements: Vec<ExpElem> = ids
                    .iter()
                    .map(|id| {
                        let n = match self.nodes.get(id) {
                            Some(n) => {
                                (if *from { n.out.len() } else { 0 } + if *to { n.inc.len() } else { 0 }) as u64
                            }
                            None => 0,
                        };
                        total += n;
                        self.elem(*id, vec![(Val::Str("edge_count".into()), Val::U64(n))])
                    })
                    .collect();
                Ok(Pred::Ok(Exp {
                    result: total,
                    elements,
                    unordered: false,
                    values_unchecked: false,
                }))
            }
            CQuery::SelectIndexes => {
                let vals: Vec<(Val, Val)> = self
                    .indexes
                    .iter()
                    .map(|k| {
                        let n: u64 = self
                            .values
                            .values()
                            .map(|v| v.iter().filter(|(kk, _)| kk == k).count() as u64)
                            .sum();
                        (k.clone(), Val::U64(n))
                    })
                    .collect();
                Ok(Pred::Ok(Exp {
                    result: vals.len() as u64,
                    elements: vec![ExpElem {
                        id: 0,
                        from: 0,
                        to: 0,
                        values: vals,
                    }],
                    unordered: true,
                    values_unchecked: false,
                }))
            }
            CQuery::SelectNodeCount => Ok(Pred::Ok(Exp {
                result: self.nodes.len() as u64,
                elements: vec![],
                unordered: false,
                values_unchecked: false,
            })),
            CQuery::Search(s) => {
                if s.algo != Algo::Index
                    && s.algo != Algo::Elements
                    && s.origin != QId::Id(0)
                    && s.destination != QId::Id(0)
                {
                    // path search has its own validity oracle (C17)
                    return Ok(Pred::Silent);
                }
                let ids = self.search(s)?;
                let elements: Vec<ExpElem> = ids.iter().map(|i| self.elem(*i, vec![])).collect();
                Ok(Pred::Ok(Exp {
                    result: elements.len() as u64,
                    elements,
                    unordered: s.algo == Algo::Index,
                    values_unchecked: false,
                }))
            }
        }
    }

    // -------------------------------------------------------------------------------
    // reference search (DESIGN 2.4)

    pub fn index_lookup(&self, key: &Val, value: &Val) -> Vec<i64> {
        let mut out = vec![];
        for (id, vals) in &self.values {
            for (k, v) in vals {
                if k == key && v == value {
                    out.push(*id);
                }
            }
        }
        out
    }

    pub fn search(&self, s: &CSearch) -> Result<Vec<i64>, String> {
        if s.algo == Algo::Index {
            let c = s.conditions.first().ok_or("index search needs a condition")?;
            return match &c.data {
                CData::KeyValue(k, cmp) => {
                    if !self.indexes.contains(k) {
                        return Err("index not found".into());
                    }
                    Ok(self.index_lookup(k, cmp_value(cmp)))
                }
                _ => Err("index condition must be key value".into()),
            };
        }
        let mut ids = if s.algo == Algo::Elements {
            let mut out = vec![];
            for (d, id) in self.all_ids().into_iter().enumerate() {
                let (_, b) = self.eval_conds(&s.conditions, id, d as u64);
                if b {
                    out.push(id);
                }
            }
            out
        } else if s.destination == QId::Id(0) {
            let origin = self.db_id(&s.origin).ok_or("unknown origin")?;
            self.traverse(origin, s.algo == Algo::Bfs, false, &s.conditions)
        } else if s.origin == QId::Id(0) {
            let dest = self.db_id(&s.destination).ok_or("unknown destination")?;
            self.traverse(dest, s.algo == Algo::Bfs, true, &s.conditions)
        } else {
            return Err("path search is not predicted by RefDb::search".into());
        };
        if !s.order_by.is_empty() {
            self.sort_ids(&mut ids, &s.order_by);
        }
        Ok(slice(ids, s.offset, s.limit))
    }

    pub fn sort_ids(&self, ids: &mut [i64], order_by: &[(bool, Val)]) {
        // stable sort; elements lacking a key go after those that have it
        ids.sort_by(|l, r| {
            let lv = self.vals(*l);
            let rv = self.vals(*r);
            for (asc, key) in order_by {
                let a = lv.iter().find(|(k, _)| k == key).map(|(_, v)| v);
                let b = rv.iter().find(|(k, _)| k == key).map(|(_, v)| v);
                let o = match (a, b) {
                    (None, None) => std::cmp::Ordering::Equal,
                    (None, Some(_)) => std::cmp::Ordering::Greater,
                    (Some(_), None) => std::cmp::Ordering::Less,
                    (Some(a), Some(b)) => {
                        let o = a.db_cmp(b);
                        if *asc { o } else { o.reverse() }
                    }
                };
                if o != std::cmp::Ordering::Equal {
                    return o;
                }
            }
            std::cmp::Ordering::Equal
        });
    }

    /// neighbours of an element in traversal order
    pub fn next_elems(&self, id: i64, reverse: bool) -> Vec<i64> {
        if id > 0 {
            match self.nodes.get(&id) {
                Some(n) => {
                    if reverse {
                        n.inc.clone()
                    } else {
                        n.out.clone()
                    }
                }
                None => vec![],
            }
        } else {
            match self.edges.get(&id) {
                Some((f, t)) => vec![if reverse { *f } else { *t }],
                None => vec![],
            }
        }
    }

    pub fn traverse(&self, origin: i64, bfs: bool, reverse: bool, conds: &[CCond]) -> Vec<i64> {
        let mut visited: BTreeSet<i64> = BTreeSet::new();
        let mut out = vec![];
        if bfs {
            let mut queue: VecDeque<(i64, u64)> = VecDeque::new();
            queue.push_back((origin, 0));
            // level-order traversal; an element is examined when first dequeued
            while let Some((id, d)) = queue.pop_front() {
                if !visited.insert(id) {
                    continue;
                }
                let (ctl, sel) = self.eval_conds(conds, id, d);
                if sel {
                    out.push(id);
                }
                if ctl == Ctl::Continue {
                    if id > 0 {
                        // all edges of a node are examined before anything deeper: they are
                        // at the same level, so they go to the queue in connection order
                        for e in self.next_elems(id, reverse) {
                            queue.push_back((e, d + 1));
                        }
                    } else {
                        for n in self.next_elems(id, reverse) {
                            queue.push_back((n, d + 1));
                        }
                    }
                }
            }
        } else {
            self.dfs(origin, 0, reverse, conds, &mut visited, &mut out);
        }
        out
    }

    fn dfs(&self, id: i64, d: u64, reverse: bool, conds: &[CCond], visited: &mut BTreeSet<i64>, out: &mut Vec<i64>) {
        // iterative pre-order to avoid deep recursion
        let mut stack: Vec<(i64, u64)> = vec![(id, d)];
        while let Some((id, d)) = stack.pop() {
            if !visited.insert(id) {
                continue;
            }
            let (ctl, sel) = self.eval_conds(conds, id, d);
            if sel {
                out.push(id);
            }
            if ctl == Ctl::Continue {
                let next = self.next_elems(id, reverse);
                for n in next.into_iter().rev() {
                    stack.push((n, d + 1));
                }
            }
        }
    }

    // condition evaluation -----------------------------------------------------------

    pub fn eval_conds(&self, conds: &[CCond], id: i64, distance: u64) -> (Ctl, bool) {
        let mut acc = (Ctl::Continue, true);
        for c in conds {
            let (ctl, b) = self.eval_data(&c.data, id, distance);
            let cur = match c.modifier {
                Modifier::None => (ctl, b),
                Modifier::Not => (ctl, !b),
                Modifier::Beyond => {
                    if b || distance == 0 {
                        (Ctl::Continue, acc.1)
                    } else {
                        (Ctl::Stop, acc.1)
                    }
                }
                Modifier::NotBeyond => {
                    if b {
                        (Ctl::Stop, acc.1)
                    } else {
                        (Ctl::Continue, acc.1)
                    }
                }
            };
            acc = match c.logic {
                Logic::And => (
                    match (acc.0, cur.0) {
                        (Ctl::Continue, Ctl::Continue) => Ctl::Continue,
                        _ => Ctl::Stop,
                    },
                    acc.1 && cur.1,
                ),
                Logic::Or => (
                    match (acc.0, cur.0) {
                        (Ctl::Stop, Ctl::Stop) => Ctl::Stop,
                        _ => Ctl::Continue,
                    },
                    acc.1 || cur.1,
                ),
            };
        }
        acc
    }

    fn eval_data(&self, data: &CData, id: i64, distance: u64) -> (Ctl, bool) {
        match data {
            CData::Distance(c) => distance_ctl(c, distance),
            CData::Edge => (Ctl::Continue, id < 0),
            CData::Node => (Ctl::Continue, id > 0),
            CData::EdgeCount(c) => (
                Ctl::Continue,
                self.nodes
                    .get(&id)
                    .map(|n| count_holds(c, (n.out.len() + n.inc.len()) as u64))
                    .unwrap_or(false),
            ),
            CData::EdgeCountFrom(c) => (
                Ctl::Continue,
                self.nodes.get(&id).map(|n| count_holds(c, n.out.len() as u64)).unwrap_or(false),
            ),
            CData::EdgeCountTo(c) => (
                Ctl::Continue,
                self.nodes.get(&id).map(|n| count_holds(c, n.inc.len() as u64)).unwrap_or(false),
            ),
            CData::Ids(list) => (
                Ctl::Continue,
                list.iter().any(|q| match q {
                    QId::Id(i) => *i == id,
                    QId::Alias(a) => self.aliases.get(a) == Some(&id),
                    _ => false,
                }),
            ),
            CData::KeyValue(k, cmp) => (
                Ctl::Continue,
                self.values
                    .get(&id)
                    .and_then(|v| v.iter().find(|(kk, _)| kk == k))
                    .map(|(_, v)| cmp_holds(cmp, v))
                    .unwrap_or(false),
            ),
            CData::Keys(keys) => {
                let have = self.vals(id);
                (Ctl::Continue, keys.iter().all(|k| have.iter().any(|(kk, _)| kk == k)))
            }
            CData::Where(w) => self.eval_conds(w, id, distance),
        }
    }
}

#[derive(Clone, Copy, Debug, PartialEq, Eq)]
pub enum Ctl {
    Continue,
    Stop,
}

pub fn slice(ids: Vec<i64>, offset: u64, limit: u64) -> Vec<i64> {
    let n = ids.len();
    let start = (offset as usize).min(n);
    let end = if limit == 0 {
        n
    } else {
        (start + limit as usize).min(n)
    };
    ids[start..end].to_vec()
}

pub fn count_holds(c: &CountCmp, left: u64) -> bool {
    match c {
        CountCmp::Eq(r) => left == *r,
        CountCmp::Gt(r) => left > *r,
        CountCmp::Ge(r) => left >= *r,
        CountCmp::Lt(r) => left < *r,
        CountCmp::Le(r) => left <= *r,
        CountCmp::Ne(r) => left != *r,
    }
}

/// Distance condition: selection is the comparison itself; the traversal is pruned where the
/// documentation says distance "can limit the depth of the search". Which comparisons prune at
/// which distance is not tabulated in the documentation; the table below is the behaviour the
/// repository's own tests pin (`search_distance_*`), adopted as the specification.
pub fn distance_ctl(c: &CountCmp, d: u64) -> (Ctl, bool) {
    match c {
        CountCmp::Eq(n) => {
            if d < *n {
                (Ctl::Continue, false)
            } else if d == *n {
                (Ctl::Stop, true)
            } else {
                (Ctl::Stop, false)
            }
        }
        CountCmp::Gt(n) => (Ctl::Continue, d > *n),
        CountCmp::Ge(n) => (Ctl::Continue, d >= *n),
        CountCmp::Lt(n) => {
            if d < *n {
                (Ctl::Continue, true)
            } else {
                (Ctl::Stop, false)
            }
        }
        CountCmp::Le(n) => {
            if d <= *n {
                (Ctl::Continue, true)
            } else {
                (Ctl::Stop, false)
            }
        }
        CountCmp::Ne(n) => (Ctl::Continue, d != *n),
    }
}

pub fn cmp_value(c: &Cmp) -> &Val {
    match c {
        Cmp::Eq(v)
        | Cmp::Gt(v)
        | Cmp::Ge(v)
        | Cmp::Lt(v)
        | Cmp::Le(v)
        | Cmp::Ne(v)
        | Cmp::Contains(v)
        | Cmp::StartsWith(v)
        | Cmp::EndsWith(v) => v,
    }
}

fn f(b: &u64) -> f64 {
    f64::from_bits(*b)
}

/// natural order within one type (floats by total order)
fn same_type_cmp(l: &Val, r: &Val) -> Option<std::cmp::Ordering> {
    use Val::*;
    Some(match (l, r) {
        (Bytes(a), Bytes(b)) => a.cmp(b),
        (I64(a), I64(b)) => a.cmp(b),
        (U64(a), U64(b)) => a.cmp(b),
        (F64(a), F64(b)) => f(a).total_cmp(&f(b)),
        (Str(a), Str(b)) => a.cmp(b),
        (VI64(a), VI64(b)) => a.cmp(b),
        (VU64(a), VU64(b)) => a.cmp(b),
        (VF64(a), VF64(b)) => {
            let mut o = std::cmp::Ordering::Equal;
            for (x, y) in a.iter().zip(b.iter()) {
                o = f(x).total_cmp(&f(y));
                if o != std::cmp::Ordering::Equal {
                    break;
                }
            }
            if o == std::cmp::Ordering::Equal {
                a.len().cmp(&b.len())
            } else {
                o
            }
        }
        (VStr(a), VStr(b)) => a.cmp(b),
        _ => return None,
    })
}

/// Type-strict comparison of a stored value (`left`) with the condition operand.
pub fn cmp_holds(c: &Cmp, left: &Val) -> bool {
    use std::cmp::Ordering::*;
    match c {
        Cmp::Eq(r) => left == r,
        Cmp::Ne(r) => left != r,
        Cmp::Gt(r) => same_type_cmp(left, r) == Some(Greater),
        Cmp::Ge(r) => matches!(same_type_cmp(left, r), Some(Greater) | Some(Equal)),
        Cmp::Lt(r) => same_type_cmp(left, r) == Some(Less),
        Cmp::Le(r) => matches!(same_type_cmp(left, r), Some(Less) | Some(Equal)),
        Cmp::Contains(r) => match (left, r) {
            (Val::Str(l), Val::Str(r)) => l.contains(r.as_str()),
            (Val::Str(l), Val::VStr(r)) => r.iter().all(|x| l.contains(x.as_str())),
            (Val::VI64(l), Val::I64(r)) => l.contains(r),
            (Val::VI64(l), Val::VI64(r)) => r.iter().all(|x| l.contains(x)),
            (Val::VU64(l), Val::U64(r)) => l.contains(r),
            (Val::VU64(l), Val::VU64(r)) => r.iter().all(|x| l.contains(x)),
            (Val::VF64(l), Val::F64(r)) => l.contains(r),
            (Val::VF64(l), Val::VF64(r)) => r.iter().all(|x| l.contains(x)),
            (Val::VStr(l), Val::Str(r)) => l.contains(r),
            (Val::VStr(l), Val::VStr(r)) => r.iter().all(|x| l.contains(x)),
            _ => false,
        },
        Cmp::StartsWith(r) => match (left, r) {
            (Val::Str(l), Val::Str(r)) => l.starts_with(r.as_str()),
            (Val::Str(l), Val::VStr(r)) => l.starts_with(r.concat().as_str()),
            (Val::VI64(l), Val::I64(r)) => l.first() == Some(r),
            (Val::VI64(l), Val::VI64(r)) => l.starts_with(r),
            (Val::VU64(l), Val::U64(r)) => l.first() == Some(r),
            (Val::VU64(l), Val::VU64(r)) => l.starts_with(r),
            (Val::VF64(l), Val::F64(r)) => l.first() == Some(r),
            (Val::VF64(l), Val::VF64(r)) => l.starts_with(r),
            (Val::VStr(l), Val::Str(r)) => l.first() == Some(r),
            (Val::VStr(l), Val::VStr(r)) => l.starts_with(r),
            _ => false,
        },
        Cmp::EndsWith(r) => match (left, r) {
            (Val::Str(l), Val::Str(r)) => l.ends_with(r.as_str()),
            (Val::Str(l), Val::VStr(r)) => l.ends_with(r.concat().as_str()),
            (Val::VI64(l), Val::I64(r)) => l.last() == Some(r),
            (Val::VI64(l), Val::VI64(r)) => l.ends_with(r),
            (Val::VU64(l), Val::U64(r)) => l.last() == Some(r),
            (Val::VU64(l), Val::VU64(r)) => l.ends_with(r),
            (Val::VF64(l), Val::F64(r)) => l.last() == Some(r),
            (Val::VF64(l), Val::VF64(r)) => l.ends_with(r),
            (Val::VStr(l), Val::Str(r)) => l.last() == Some(r),
            (Val::VStr(l), Val::VStr(r)) => l.ends_with(r),
            _ => false,
        },
    }
}
