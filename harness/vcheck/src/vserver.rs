//! Server process driver (DESIGN 2.8): spawns the freshly built agdb_server in a scratch
//! directory nested five levels below the scratch root, talks raw HTTP/1.1 to it.
use crate::core::*;
use serde_json::Value;
use std::io::{Read, Write};
use std::net::TcpStream;
use std::path::{Path, PathBuf};
use std::process::{Child, Command, Stdio};
use std::time::{Duration, Instant};

pub struct Server {
    pub root: PathBuf,
    pub dir: PathBuf,
    pub data_dir: PathBuf,
    pub port: u16,
    child: Child,
    pub admin_token: String,
}

#[derive(Debug, Clone)]
pub struct Resp {
    pub status: u16,
    pub body: Vec<u8>,
}

impl Resp {
    pub fn json(&self) -> Value {
        serde_json::from_slice(&self.body).unwrap_or(Value::Null)
    }
    pub fn text(&self) -> String {
        String::from_utf8_lossy(&self.body).to_string()
    }
    pub fn ok(&self) -> bool {
        (200..300).contains(&self.status)
    }
}

pub fn server_binary() -> PathBuf {
    PathBuf::from(std::env::var("VERIF_SERVER_BIN").unwrap_or_else(|_| format!("{}/target/server/debug/agdb_server", verif_root())))
}

/// Ports come from a range private to this process (by pid) and are never handed out twice,
/// so that servers started concurrently by the workers of one run cannot race for a port; a
/// port that is in use by somebody else is skipped.
pub fn free_port() -> u16 {
    static NEXT: std::sync::atomic::AtomicU32 = std::sync::atomic::AtomicU32::new(0);
    let base = 20000 + (std::process::id() % 160) * 250;
    for _ in 0..250 {
        let k = NEXT.fetch_add(1, std::sync::atomic::Ordering::Relaxed) % 250;
        let port = (base + k) as u16;
        if std::net::TcpListener::bind(("127.0.0.1", port)).is_ok() {
            return port;
        }
    }
    let l = std::net::TcpListener::bind("127.0.0.1:0").expect("bind");
    l.local_addr().unwrap().port()
}

/// A failure of the machinery inside a case (server did not start or stopped answering on a
/// loaded machine): raised as a panic from this harness file, which the runner turns into a
/// `harness:` failure - the case is skipped and counted, never judged.
pub fn harness_fail(what: &str) -> ! {
    panic!("harness: {what}")
}

impl Server {
    pub fn start(tag: &str, token_expiry_seconds: Option<u64>) -> Server {
        let root = fresh_dir(tag);
        let dir = root.join("l1/l2/l3/l4/l5");
        std::fs::create_dir_all(&dir).expect("server dir");
        for attempt in 0..5 {
            // a failed attempt drops its Server value, which removes the scratch root
            std::fs::create_dir_all(&dir).expect("server dir");
            let port = free_port();
            let mut cfg = format!("bind: 127.0.0.1:{port}\naddress: http://127.0.0.1:{port}\nadmin: admin\ndata_dir: agdb_server_data\nlog_level: OFF\n");
            if let Some(t) = token_expiry_seconds {
                cfg.push_str(&format!("token_expiry_seconds: {t}\n"));
            }
            std::fs::write(dir.join("agdb_server.yaml"), cfg).expect("config");
            let bin = server_binary();
            if !bin.exists() {
                harness_fail(&format!("server binary {} not built", bin.display()));
            }
            let child = Command::new(&bin).current_dir(&dir).stdout(Stdio::null()).stderr(Stdio::null()).spawn().unwrap_or_else(|e| harness_fail(&format!("cannot spawn server: {e}")));
            let mut s = Server { root: root.clone(), data_dir: dir.join("agdb_server_data"), dir: dir.clone(), port, child, admin_token: String::new() };
            let start = Instant::now();
            let mut up = false;
            while start.elapsed() < Duration::from_secs(40) {
                if let Ok(Some(_)) = s.child.try_wait() {
                    break;
                }
                if let Ok(r) = s.request("GET", "/api/v1/status", None, None) {
                    if r.status == 200 {
                        up = true;
                        break;
                    }
                }
                std::thread::sleep(Duration::from_millis(50));
            }
            if up {
                // the answer may have come from another server that won a race for this port: a
                // process that failed to bind exits right away, so ours must still be running
                std::thread::sleep(Duration::from_millis(300));
                if let Ok(Some(_)) = s.child.try_wait() {
                    up = false;
                }
            }
            if up {
                match s.login("admin", "admin") {
                    Some(t) => {
                        s.admin_token = t;
                        return s;
                    }
                    None => harness_fail("admin login failed"),
                }
            }
            let _ = s.child.kill();
            let _ = s.child.wait();
            let _ = attempt;
        }
        harness_fail("server did not start")
    }

    /// Raw HTTP request; `path` is sent verbatim (already encoded by the caller).
    pub fn request(&self, method: &str, path: &str, token: Option<&str>, body: Option<&str>) -> std::io::Result<Resp> {
        http_request(self.port, method, path, token, body, 40)
    }
}

/// Raw HTTP/1.1 request to 127.0.0.1:`port`; `connect_attempts` x 250 ms of connection retries.
pub fn http_request(port: u16, method: &str, path: &str, token: Option<&str>, body: Option<&str>, connect_attempts: u32) -> std::io::Result<Resp> {
    struct P {
        port: u16,
    }
    let this = P { port };
    let self_ = &this;
    {
        // connecting is retried (a loaded machine can refuse or time out a connection before
        // the request exists, so a retry cannot apply anything twice)
        let mut attempt = 0;
        let mut stream = loop {
            match TcpStream::connect_timeout(&std::net::SocketAddr::from(([127, 0, 0, 1], self_.port)), Duration::from_secs(5)) {
                Ok(s) => break s,
                Err(e) => {
                    attempt += 1;
                    if attempt >= connect_attempts {
                        return Err(e);
                    }
                    std::thread::sleep(Duration::from_millis(250));
                }
            }
        };
        stream.set_read_timeout(Some(Duration::from_secs(120)))?;
        stream.set_write_timeout(Some(Duration::from_secs(20)))?;
        let mut req = format!("{method} {path} HTTP/1.1\r\nHost: 127.0.0.1:{}\r\nConnection: close\r\nAccept: application/json\r\n", self_.port);
        if let Some(t) = token {
            req.push_str(&format!("Authorization: Bearer {t}\r\n"));
        }
        match body {
            Some(b) => req.push_str(&format!("Content-Type: application/json\r\nContent-Length: {}\r\n\r\n{b}", b.len())),
            None => req.push_str("Content-Length: 0\r\n\r\n"),
        }
        stream.write_all(req.as_bytes())?;
        let mut raw = vec![];
        stream.read_to_end(&mut raw)?;
        let split = raw.windows(4).position(|w| w == b"\r\n\r\n").unwrap_or(raw.len());
        let head = String::from_utf8_lossy(&raw[..split]).to_string();
        let mut body = if split + 4 <= raw.len() { raw[split + 4..].to_vec() } else { vec![] };
        let status: u16 = head.split_whitespace().nth(1).and_then(|s| s.parse().ok()).unwrap_or(0);
        if head.to_ascii_lowercase().contains("transfer-encoding: chunked") {
            body = dechunk(&body);
        }
        Ok(Resp { status, body })
    }
}

impl Server {
    pub fn call(&self, method: &str, path: &str, token: Option<&str>, body: Option<&Value>) -> Resp {
        let b = body.map(|v| v.to_string());
        // only a read-only request may be repeated after it was sent
        let tries = if method == "GET" { 3 } else { 1 };
        let mut last = String::new();
        for _ in 0..tries {
            match self.request(method, path, token, b.as_deref()) {
                Ok(r) => return r,
                Err(e) => {
                    last = e.to_string();
                    std::thread::sleep(Duration::from_millis(200));
                }
            }
        }
        harness_fail(&format!("server does not answer {method} {path}: {last}"))
    }

    pub fn login(&self, user: &str, password: &str) -> Option<String> {
        let r = self.call("POST", "/api/v1/user/login", None, Some(&serde_json::json!({"username": user, "password": password})));
        if r.status == 200 { r.json().as_str().map(|s| s.to_string()) } else { None }
    }

    pub fn add_user(&self, user: &str, password: &str) -> Resp {
        self.call("POST", &format!("/api/v1/admin/user/{user}/add"), Some(&self.admin_token), Some(&serde_json::json!({"password": password})))
    }
}

fn dechunk(mut b: &[u8]) -> Vec<u8> {
    let mut out = vec![];
    loop {
        let Some(p) = b.windows(2).position(|w| w == b"\r\n") else { break };
        let len = usize::from_str_radix(String::from_utf8_lossy(&b[..p]).trim(), 16).unwrap_or(0);
        if len == 0 || p + 2 + len > b.len() {
            break;
        }
        out.extend(&b[p + 2..p + 2 + len]);
        b = &b[(p + 2 + len + 2).min(b.len())..];
    }
    out
}

impl Drop for Server {
    fn drop(&mut self) {
        let _ = self.request("POST", "/api/v1/admin/shutdown", Some(&self.admin_token), None);
        let start = Instant::now();
        while start.elapsed() < Duration::from_secs(3) {
            if let Ok(Some(_)) = self.child.try_wait() {
                break;
            }
            std::thread::sleep(Duration::from_millis(20));
        }
        let _ = self.child.kill();
        let _ = self.child.wait();
        let _ = std::fs::remove_dir_all(&self.root);
    }
}

/// (relative path, size, content hash) of every file below `root`
pub fn manifest(root: &Path) -> std::collections::BTreeMap<String, (u64, u64)> {
    fn walk(dir: &Path, root: &Path, out: &mut std::collections::BTreeMap<String, (u64, u64)>) {
        if let Ok(rd) = std::fs::read_dir(dir) {
            for e in rd.flatten() {
                let p = e.path();
                if p.is_dir() {
                    walk(&p, root, out);
                    // empty directories matter too (a created directory is a file-system change)
                    out.entry(format!("{}/", p.strip_prefix(root).unwrap().to_string_lossy())).or_insert((0, 0));
                } else {
                    let data = std::fs::read(&p).unwrap_or_default();
                    out.insert(p.strip_prefix(root).unwrap().to_string_lossy().to_string(), (data.len() as u64, stable_hash(&data)));
                }
            }
        }
    }
    let mut out = Default::default();
    walk(root, root, &mut out);
    out
}

pub fn pct(s: &str) -> String {
    let mut out = String::new();
    for b in s.bytes() {
        if b.is_ascii_alphanumeric() || b"-._~".contains(&b) {
            out.push(b as char);
        } else {
            out.push_str(&format!("%{b:02X}"));
        }
    }
    out
}
