//! Runner core: seeds, campaigns on top of proptest, labels, evidence, known-findings
//! matcher, replay files, panic capture.
use proptest::strategy::{Strategy, ValueTree};
use proptest::test_runner::{Config, RngAlgorithm, RngSeed, TestCaseError, TestError, TestRunner};
use serde::{Deserialize, Serialize};
use serde_json::{Value, json};
use std::cell::RefCell;
use std::collections::{BTreeMap, BTreeSet, HashSet};
use std::hash::{Hash, Hasher};
use std::path::{Path, PathBuf};
use std::sync::Mutex;
use std::time::Instant;

pub const VERIF_ROOT: &str = "/verif";

/// Where evidence and newly saved replays are written (default: /verif). Experiments against
/// scratch copies of the repository set VERIF_OUT so that they never touch the committed files.
pub fn out_root() -> String {
    std::env::var("VERIF_OUT").unwrap_or_else(|_| verif_root())
}

/// The directory holding known_findings.json and replays/ (the check wrapper exports its own
/// location as VERIF_HOME, so that a snapshot of /verif run elsewhere is self-contained).
pub fn verif_root() -> String {
    std::env::var("VERIF_HOME").unwrap_or_else(|_| VERIF_ROOT.to_string())
}

pub fn repo_root() -> String {
    std::env::var("VERIF_REPO").unwrap_or_else(|_| "/repo".to_string())
}

#[derive(Clone, Copy, PartialEq, Eq, Debug)]
pub enum Tier {
    Quick,
    Thorough,
}

impl Tier {
    pub fn name(self) -> &'static str {
        match self {
            Tier::Quick => "quick",
            Tier::Thorough => "thorough",
        }
    }
    pub fn pick<T>(self, quick: T, thorough: T) -> T {
        match self {
            Tier::Quick => quick,
            Tier::Thorough => thorough,
        }
    }
}

/// What an oracle reports for one executed case.
#[derive(Default, Clone, Debug)]
pub struct CaseInfo {
    pub nontrivial: bool,
    pub labels: Vec<String>,
    /// counts added to named counters (e.g. crash images examined inside the case)
    pub counters: Vec<(String, u64)>,
    /// sub-evaluations performed inside this case (crash images, searches...); 0 means 1
    pub evals: u64,
    /// number of distinct non-trivial sub-cases (hashes) contributed by this case
    pub sub_nontrivial: Vec<u64>,
}

impl CaseInfo {
    pub fn label(&mut self, l: impl Into<String>) {
        let l = l.into();
        if !self.labels.contains(&l) {
            self.labels.push(l);
        }
    }
    pub fn count(&mut self, l: impl Into<String>, n: u64) {
        self.counters.push((l.into(), n));
    }
}

/// An oracle failure. `sig` is the refactoring-tolerant failure signature used to match
/// known findings; `detail` is free text for the replay file.
#[derive(Clone, Debug, Serialize, Deserialize)]
pub struct Fail {
    pub sig: String,
    pub detail: String,
}

impl Fail {
    pub fn new(sig: impl Into<String>, detail: impl Into<String>) -> Self {
        Fail {
            sig: sig.into(),
            detail: detail.into(),
        }
    }
}

pub type CaseResult = Result<CaseInfo, Fail>;

#[derive(Clone, Debug, Deserialize, Serialize)]
pub struct KnownEntry {
    pub property: String,
    pub signature: String,
    pub text: String,
    #[serde(default)]
    pub replay: String,
}

#[derive(Clone, Debug, Deserialize, Serialize)]
pub struct FixedEntry {
    pub property: String,
    pub commit: String,
    pub text: String,
}

#[derive(Clone, Debug, Deserialize, Serialize, Default)]
pub struct KnownFindings {
    #[serde(default)]
    pub known: Vec<KnownEntry>,
    #[serde(default)]
    pub fixed: Vec<FixedEntry>,
}

impl KnownFindings {
    pub fn load() -> Self {
        let p = format!("{}/known_findings.json", verif_root());
        match std::fs::read_to_string(&p) {
            Ok(s) => serde_json::from_str(&s).unwrap_or_else(|e| {
                eprintln!("HARNESS: cannot parse {p}: {e}");
                std::process::exit(2)
            }),
            Err(_) => KnownFindings::default(),
        }
    }
    pub fn for_property(&self, id: &str) -> Vec<KnownEntry> {
        self.known
            .iter()
            .filter(|k| k.property == id)
            .cloned()
            .collect()
    }
}

pub struct Ctx {
    pub id: String,
    pub tier: Tier,
    pub seed: u64,
    pub level: String,
    pub rule: String,
    pub evaluations: u64,
    pub nontrivial: HashSet<u64>,
    pub labels: BTreeMap<String, u64>,
    pub samples: Vec<Value>,
    pub violations: Vec<(String, String)>, // (signature, replay path)
    pub known: Vec<KnownEntry>,
    pub known_hits: BTreeMap<String, u64>,
    pub undecided: u64,
    pub undecided_samples: Vec<Value>,
    pub extra: serde_json::Map<String, Value>,
    pub assumptions: Vec<String>,
    pub start: Instant,
    pub workers: usize,
    pub replayed: u64,
    /// set when this process is an isolated child of a supervisor (see isolate.rs)
    pub child: Option<crate::isolate::ChildInfo>,
}

pub fn stable_hash<T: Hash>(t: &T) -> u64 {
    #[allow(deprecated)]
    let mut h = std::hash::SipHasher::new_with_keys(0x5eed, 0xa9db);
    t.hash(&mut h);
    h.finish()
}

pub fn hash_json<T: Serialize>(t: &T) -> u64 {
    stable_hash(&serde_json::to_string(t).unwrap_or_default())
}

fn mix(a: u64, b: u64) -> u64 {
    let mut z = a
        .wrapping_add(0x9E3779B97F4A7C15u64.wrapping_mul(b.wrapping_add(1)))
        .wrapping_add(0x632BE59BD9B4E019);
    z = (z ^ (z >> 30)).wrapping_mul(0xBF58476D1CE4E5B9);
    z = (z ^ (z >> 27)).wrapping_mul(0x94D049BB133111EB);
    z ^ (z >> 31)
}

pub fn derive_seed(seed: u64, parts: &[u64]) -> [u8; 32] {
    let mut s = mix(seed, 0xabcdef);
    for p in parts {
        s = mix(s, *p);
    }
    let mut out = [0u8; 32];
    for i in 0..4 {
        s = mix(s, i as u64 + 17);
        out[i * 8..i * 8 + 8].copy_from_slice(&s.to_le_bytes());
    }
    out
}

impl Ctx {
    pub fn new(id: &str, tier: Tier, seed: u64) -> Self {
        // VERIF_IGNORE_KNOWN=1 (development aid): treat every finding as unlisted, so that the
        // listed ones are shrunk and saved as replay files
        let known = if std::env::var("VERIF_IGNORE_KNOWN").is_ok() { vec![] } else { KnownFindings::load().for_property(id) };
        let workers = std::env::var("VERIF_WORKERS")
            .ok()
            .and_then(|s| s.parse().ok())
            .unwrap_or_else(|| {
                std::thread::available_parallelism()
                    .map(|n| n.get())
                    .unwrap_or(4)
                    .min(16)
            });
        Ctx {
            id: id.to_string(),
            tier,
            seed,
            level: "exploration".into(),
            rule: String::new(),
            evaluations: 0,
            nontrivial: HashSet::new(),
            labels: BTreeMap::new(),
            samples: vec![],
            violations: vec![],
            known,
            known_hits: BTreeMap::new(),
            undecided: 0,
            undecided_samples: vec![],
            extra: serde_json::Map::new(),
            assumptions: vec![],
            start: Instant::now(),
            workers,
            replayed: 0,
            child: crate::isolate::child_info(),
        }
    }

    /// Non-campaign work (exhaustive small-scope enumeration, grids) runs once: in the main
    /// process, or in the first child of an isolated run.
    pub fn runs_once_here(&self) -> bool {
        self.child.as_ref().map(|c| c.index == 0 && c.restart == 0).unwrap_or(true)
    }

    pub fn scratch(&self, tag: &str) -> PathBuf {
        scratch_dir(&format!("{}-{}", self.id, tag))
    }

    pub fn is_known(&self, sig: &str) -> Option<&KnownEntry> {
        self.known.iter().find(|k| k.signature == sig)
    }

    pub fn label(&mut self, l: &str, n: u64) {
        *self.labels.entry(l.to_string()).or_default() += n;
    }

    pub fn absorb(&mut self, hash: u64, info: &CaseInfo) {
        self.evaluations += info.evals.max(1);
        if info.nontrivial {
            self.nontrivial.insert(hash);
        }
        for h in &info.sub_nontrivial {
            self.nontrivial.insert(*h);
        }
        for l in &info.labels {
            *self.labels.entry(l.clone()).or_default() += 1;
        }
        for (l, n) in &info.counters {
            *self.labels.entry(l.clone()).or_default() += *n;
        }
    }

    /// Record a failure: save replay, classify as known finding or violation.
    /// Returns true if it is a listed known finding.
    pub fn record_failure<T: Serialize>(&mut self, campaign: &str, case: &T, fail: &Fail) -> bool {
        if fail.sig.starts_with("harness:") {
            // the machinery failed (server did not start, scratch file vanished, a panic inside
            // the harness itself): exit code 2, never a verdict about the property
            eprintln!("HARNESS: {} | {}", fail.sig, truncate(&fail.detail, 600));
            self.extra.insert("child_machinery_failure".into(), Value::Bool(true));
            return false;
        }
        if let Some(k) = self.is_known(&fail.sig).cloned() {
            let first = !self.known_hits.contains_key(&k.signature);
            *self.known_hits.entry(k.signature.clone()).or_default() += 1;
            if first {
                println!("KNOWN-FINDING: property={} {}", self.id, k.text);
            }
            return true;
        }
        let path = save_replay(&self.id, campaign, case, fail);
        if !self.violations.iter().any(|(s, _)| s == &fail.sig) {
            println!("VIOLATION property={} replay={}", self.id, path);
            println!("  signature: {}", fail.sig);
            println!("  detail: {}", truncate(&fail.detail, 2000));
        }
        self.violations.push((fail.sig.clone(), path));
        false
    }

    pub fn finish(mut self) -> i32 {
        cleanup_scratch();
        if let Some(c) = &self.child {
            crate::isolate::write_partial(&self, &c.out);
            return 0;
        }
        if self.extra.contains_key("child_machinery_failure") {
            return 2;
        }
        let glitches: u64 = self.labels.iter().filter(|(k, _)| k.contains("harness glitches")).map(|(_, v)| *v).sum();
        if glitches > 3 && glitches * 10 > self.evaluations.max(1) {
            eprintln!("HARNESS: {glitches} cases could not be run (machinery failures)");
            return 2;
        }
        let wall = self.start.elapsed().as_secs_f64();
        let mut coverage = serde_json::Map::new();
        coverage.insert("evaluations".into(), json!(self.evaluations));
        coverage.insert("distinct_nontrivial".into(), json!(self.nontrivial.len()));
        coverage.insert("rule".into(), json!(self.rule));
        coverage.insert("samples".into(), json!(self.samples));
        coverage.insert("labels".into(), json!(self.labels));
        coverage.insert("undecided_timeouts".into(), json!(self.undecided));
        if !self.undecided_samples.is_empty() {
            coverage.insert("undecided_samples".into(), json!(self.undecided_samples));
        }
        coverage.insert("replayed_regressions".into(), json!(self.replayed));
        coverage.insert(
            "known_findings_met".into(),
            json!(
                self.known_hits
                    .iter()
                    .map(|(k, v)| json!({"signature": k, "hits": v}))
                    .collect::<Vec<_>>()
            ),
        );
        coverage.insert(
            "violation_signatures".into(),
            json!(
                self.violations
                    .iter()
                    .map(|(s, p)| json!({"signature": s, "replay": p}))
                    .collect::<Vec<_>>()
            ),
        );
        coverage.insert("workers".into(), json!(self.workers));
        for (k, v) in std::mem::take(&mut self.extra) {
            coverage.insert(k, v);
        }
        let ev = json!({
            "property_id": self.id,
            "tier": self.tier.name(),
            "seed": self.seed,
            "level": self.level,
            "coverage": Value::Object(coverage),
            "assumptions": self.assumptions,
            "wall_s": wall,
            "violations": self.violations.len(),
        });
        let dir = format!("{}/evidence", out_root());
        let _ = std::fs::create_dir_all(&dir);
        let path = format!("{dir}/{}.json", self.id);
        if let Err(e) = std::fs::write(&path, serde_json::to_string_pretty(&ev).unwrap()) {
            eprintln!("HARNESS: cannot write evidence {path}: {e}");
            return 2;
        }
        println!(
            "{} {}: evaluations={} distinct_nontrivial={} known_hits={} undecided={} violations={} wall={:.1}s",
            self.id,
            self.tier.name(),
            self.evaluations,
            self.nontrivial.len(),
            self.known_hits.values().sum::<u64>(),
            self.undecided,
            self.violations.len(),
            wall
        );
        if !self.violations.is_empty() {
            1
        } else if self.evaluations == 0 || self.nontrivial.len() < 2 {
            eprintln!("HARNESS: campaign covered too little (evaluations={}, nontrivial={})", self.evaluations, self.nontrivial.len());
            2
        } else {
            0
        }
    }
}

pub fn truncate(s: &str, n: usize) -> String {
    if s.len() <= n {
        s.to_string()
    } else {
        let mut end = n;
        while !s.is_char_boundary(end) {
            end -= 1;
        }
        format!("{}…[{} bytes]", &s[..end], s.len())
    }
}

pub fn scratch_dir(tag: &str) -> PathBuf {
    let base = std::env::var("VERIF_SCRATCH").unwrap_or_else(|_| "/tmp".into());
    let p = PathBuf::from(base).join(format!("verif-{}-{}", std::process::id(), tag));
    let _ = std::fs::remove_dir_all(&p);
    std::fs::create_dir_all(&p).expect("cannot create scratch dir");
    p
}

pub struct ScratchGuard(pub PathBuf);
impl Drop for ScratchGuard {
    fn drop(&mut self) {
        let _ = std::fs::remove_dir_all(&self.0);
    }
}

#[derive(Serialize, Deserialize)]
pub struct ReplayFile {
    pub property: String,
    pub campaign: String,
    pub signature: String,
    pub detail: String,
    pub case: Value,
}

pub fn save_replay<T: Serialize>(id: &str, campaign: &str, case: &T, fail: &Fail) -> String {
    let case = serde_json::to_value(case).unwrap_or(Value::Null);
    let h = stable_hash(&(campaign, serde_json::to_string(&case).unwrap_or_default()));
    let dir = format!("{}/replays/{id}", out_root());
    let _ = std::fs::create_dir_all(&dir);
    let path = format!("{dir}/{campaign}-{h:016x}.json");
    let rf = ReplayFile {
        property: id.to_string(),
        campaign: campaign.to_string(),
        signature: fail.sig.clone(),
        detail: truncate(&fail.detail, 20000),
        case,
    };
    let _ = std::fs::write(&path, serde_json::to_string_pretty(&rf).unwrap());
    path
}

pub fn list_replays(id: &str, campaign: &str) -> Vec<(PathBuf, ReplayFile)> {
    let dir = format!("{}/replays/{id}", verif_root());
    let mut out = vec![];
    if let Ok(rd) = std::fs::read_dir(&dir) {
        let mut paths: Vec<PathBuf> = rd.filter_map(|e| e.ok().map(|e| e.path())).collect();
        paths.sort();
        for p in paths {
            if p.extension().map(|e| e == "json").unwrap_or(false) {
                if let Ok(s) = std::fs::read_to_string(&p) {
                    if let Ok(rf) = serde_json::from_str::<ReplayFile>(&s) {
                        if rf.campaign == campaign {
                            out.push((p, rf));
                        }
                    }
                }
            }
        }
    }
    out
}

// ---------------------------------------------------------------------------------------
// panic capture

thread_local! {
    static LAST_PANIC: RefCell<Option<(String, String, u32)>> = const { RefCell::new(None) };
    static QUIET: RefCell<bool> = const { RefCell::new(false) };
}

pub fn install_panic_hook() {
    let default = std::panic::take_hook();
    std::panic::set_hook(Box::new(move |info| {
        let msg = if let Some(s) = info.payload().downcast_ref::<&str>() {
            s.to_string()
        } else if let Some(s) = info.payload().downcast_ref::<String>() {
            s.clone()
        } else {
            "<non-string panic>".to_string()
        };
        let (file, line) = info
            .location()
            .map(|l| (l.file().to_string(), l.line()))
            .unwrap_or_default();
        let quiet = QUIET.with(|q| *q.borrow()) && std::env::var("VERIF_LOUD").is_err();
        LAST_PANIC.with(|p| *p.borrow_mut() = Some((msg, file, line)));
        if !quiet {
            default(info);
        }
    }));
}

/// Run `f`, catching panics. A panic is turned into a `Fail` whose signature is
/// `panic:<file>:<enclosing fn>:<message without digits>`.
pub fn catch<T>(f: impl FnOnce() -> T) -> Result<T, Fail> {
    QUIET.with(|q| *q.borrow_mut() = true);
    LAST_PANIC.with(|p| *p.borrow_mut() = None);
    let r = std::panic::catch_unwind(std::panic::AssertUnwindSafe(f));
    QUIET.with(|q| *q.borrow_mut() = false);
    match r {
        Ok(v) => Ok(v),
        Err(_) => {
            let (msg, file, line) = LAST_PANIC
                .with(|p| p.borrow_mut().take())
                .unwrap_or_else(|| ("<unknown>".into(), String::new(), 0));
            Err(Fail::new(
                panic_signature(&msg, &file, line),
                format!("panic '{msg}' at {file}:{line}"),
            ))
        }
    }
}

pub fn strip_digits(s: &str) -> String {
    let mut out = String::new();
    let mut last_digit = false;
    for c in s.chars() {
        if c.is_ascii_digit() {
            if !last_digit {
                out.push('#');
            }
            last_digit = true;
        } else {
            out.push(c);
            last_digit = false;
        }
    }
    out
}

static FN_CACHE: Mutex<BTreeMap<(String, u32), String>> = Mutex::new(BTreeMap::new());

/// Resolve the enclosing function by scanning the current repository source backwards from
/// the reported line to the nearest `fn` header.
pub fn enclosing_fn(file: &str, line: u32) -> String {
    if let Some(v) = FN_CACHE.lock().unwrap().get(&(file.to_string(), line)) {
        return v.clone();
    }
    let mut name = "?".to_string();
    let candidates = [
        PathBuf::from(file),
        Path::new(&repo_root()).join(file),
        Path::new(&repo_root()).join("agdb").join(file),
    ];
    for c in candidates {
        if let Ok(src) = std::fs::read_to_string(&c) {
            let lines: Vec<&str> = src.lines().collect();
            let mut i = (line as usize).min(lines.len());
            while i > 0 {
                i -= 1;
                let l = lines[i].trim_start();
                if let Some(pos) = l.find("fn ") {
                    let before = &l[..pos];
                    if before.is_empty()
                        || before.ends_with("pub ")
                        || before.ends_with("pub(crate) ")
                        || before.ends_with("async ")
                        || before.ends_with("const ")
                        || before.ends_with("unsafe ")
                    {
                        let rest = &l[pos + 3..];
                        let end = rest
                            .find(|c: char| !(c.is_alphanumeric() || c == '_'))
                            .unwrap_or(rest.len());
                        name = rest[..end].to_string();
                        break;
                    }
                }
            }
            break;
        }
    }
    FN_CACHE
        .lock()
        .unwrap()
        .insert((file.to_string(), line), name.clone());
    name
}

pub fn panic_signature(msg: &str, file: &str, line: u32) -> String {
    if file.starts_with("vcheck/") || file.starts_with("raftsim/") || file.contains("/harness/vcheck/") || file.contains("/harness/raftsim/") || file.contains("/hsrc/vcheck/") || file.contains("/hsrc/raftsim/") {
        // a panic raised by the harness's own code
        return format!("harness: panic at {file}:{line}: {}", truncate(&strip_digits(msg), 100));
    }
    let short_file = file
        .rsplit_once("/src/")
        .map(|(_, f)| f.to_string())
        .unwrap_or_else(|| file.to_string());
    // panics raised inside std/core (slice indexing etc.) carry the std location when
    // track_caller is not propagated; keep the file, the function is then "?"
    let func = if file.contains("/rustc/") || file.contains("library/") {
        "std".to_string()
    } else {
        enclosing_fn(file, line)
    };
    let m = strip_digits(msg);
    let m = truncate(&m, 100);
    format!("panic:{short_file}:{func}:{m}")
}

// ---------------------------------------------------------------------------------------
// campaigns

pub struct CampaignCfg {
    pub name: &'static str,
    pub cases: u32,
    pub max_shrink_iters: u32,
    /// how many times a campaign restarts after meeting a *known* finding
    pub max_restarts: u32,
}

/// Set once a worker has shrunk and recorded a failure: the remaining workers (threads of this
/// process and, through the stop file named by VERIF_STOP_FILE, the other child processes) stop
/// generating cases and cut their own shrinking short. One shrunk counterexample is what a run on
/// a broken tree needs; sixteen workers each shrinking their own can take an hour.
static STOP: std::sync::atomic::AtomicBool = std::sync::atomic::AtomicBool::new(false);

pub fn request_stop() {
    STOP.store(true, std::sync::atomic::Ordering::SeqCst);
    if let Ok(p) = std::env::var("VERIF_STOP_FILE") {
        let _ = std::fs::write(p, b"stop");
    }
}

pub fn stop_requested() -> bool {
    if STOP.load(std::sync::atomic::Ordering::Relaxed) {
        return true;
    }
    if let Ok(p) = std::env::var("VERIF_STOP_FILE") {
        if Path::new(&p).exists() {
            STOP.store(true, std::sync::atomic::Ordering::Relaxed);
            return true;
        }
    }
    false
}

struct WorkerStats {
    evaluations: u64,
    nontrivial: HashSet<u64>,
    labels: BTreeMap<String, u64>,
    samples: Vec<Value>,
    failure: Option<(Value, Fail)>,
    done_cases: u32,
    /// failures whose signature is a listed known finding: counted, not shrunk, campaign goes on
    known_hits: BTreeMap<String, u64>,
}

fn run_one<S, F>(
    seed_bytes: [u8; 32],
    cases: u32,
    max_shrink: u32,
    strategy: &S,
    test: &F,
    want_samples: usize,
    known_sigs: &[String],
    progress: &dyn Fn(&WorkerStats),
) -> WorkerStats
where
    S: Strategy,
    S::Value: Serialize + std::fmt::Debug,
    F: Fn(&S::Value) -> CaseResult,
{
    let config = Config {
        cases,
        failure_persistence: None,
        rng_algorithm: RngAlgorithm::ChaCha,
        rng_seed: RngSeed::Fixed(0),
        max_shrink_iters: max_shrink,
        max_global_rejects: 1 << 20,
        ..Config::default()
    };
    let rng = proptest::test_runner::TestRng::from_seed(RngAlgorithm::ChaCha, &seed_bytes);
    let mut runner = TestRunner::new_with_rng(config, rng);
    let stats = RefCell::new(WorkerStats {
        evaluations: 0,
        nontrivial: HashSet::new(),
        labels: BTreeMap::new(),
        samples: vec![],
        failure: None,
        done_cases: 0,
        known_hits: BTreeMap::new(),
    });
    let failed = RefCell::new(false);
    let first_sig: RefCell<Option<String>> = RefCell::new(None);
    let log_cases = std::env::var("VERIF_LOG_CASE").ok();
    let result = runner.run(strategy, |v| {
        if let Some(p) = &log_cases {
            // debugging aid: the case in flight survives an abort of the process
            let _ = std::fs::write(p, serde_json::to_string(&v).unwrap_or_default());
        }
        if !*failed.borrow() {
            let st = stats.borrow();
            if st.done_cases % 8 == 0 {
                progress(&st);
            }
        }
        if stop_requested() {
            // another worker already delivered a counterexample: skip the remaining cases and
            // end a shrink in progress (every further candidate "passes")
            return Ok(());
        }
        // a panic that escapes the case function (harness code outside its own catch calls)
        // becomes a failure like any other; one raised by harness files is a machinery failure
        let r = catch(|| test(&v)).and_then(|r| r);
        if *failed.borrow() {
            // shrinking phase: no counting; a candidate only counts as "still failing" when it
            // fails in the same way (same signature), so that a counterexample never shrinks
            // into a different failure - in particular not into a listed known finding
            return match r {
                Ok(_) => Ok(()),
                Err(f) if Some(&f.sig) == first_sig.borrow().as_ref() => Err(TestCaseError::fail(f.sig)),
                Err(_) => Ok(()),
            };
        }
        match r {
            Ok(info) => {
                let mut st = stats.borrow_mut();
                st.done_cases += 1;
                st.evaluations += info.evals.max(1);
                let need_hash = info.nontrivial;
                if need_hash {
                    st.nontrivial.insert(hash_json(&v));
                }
                for h in &info.sub_nontrivial {
                    st.nontrivial.insert(*h);
                }
                for l in &info.labels {
                    *st.labels.entry(l.clone()).or_default() += 1;
                }
                for (l, n) in &info.counters {
                    *st.labels.entry(l.clone()).or_default() += *n;
                }
                if st.samples.len() < want_samples && (info.nontrivial || !info.sub_nontrivial.is_empty()) {
                    if let Ok(j) = serde_json::to_value(&v) {
                        st.samples.push(j);
                    }
                }
                if crate::isolate::retire_requested() {
                    // this case abandoned a runaway helper thread: persist the counts and let
                    // the supervisor continue with a fresh process
                    progress(&st);
                    std::process::exit(crate::isolate::RETIRE_EXIT);
                }
                Ok(())
            }
            Err(f) if f.sig.starts_with("harness:") => {
                // a transient failure of the machinery (loaded machine, server slow to start):
                // the case is not judged; too many of them fail the run as a machinery failure
                let mut st = stats.borrow_mut();
                st.done_cases += 1;
                *st.labels.entry("harness glitches (cases not judged)".to_string()).or_default() += 1;
                eprintln!("HARNESS (case skipped): {} | {}", f.sig, truncate(&f.detail, 300));
                Ok(())
            }
            Err(f) if known_sigs.contains(&f.sig) => {
                // a listed known finding: count it and continue the search behind it
                let mut st = stats.borrow_mut();
                st.done_cases += 1;
                st.evaluations += 1;
                *st.known_hits.entry(f.sig).or_default() += 1;
                Ok(())
            }
            Err(f) => {
                *failed.borrow_mut() = true;
                *first_sig.borrow_mut() = Some(f.sig.clone());
                let mut st = stats.borrow_mut();
                st.done_cases += 1;
                st.evaluations += 1;
                Err(TestCaseError::fail(f.sig))
            }
        }
    });
    let mut st = stats.into_inner();
    match result {
        Ok(()) => {}
        Err(TestError::Fail(reason, value)) => {
            let fail = match catch(|| test(&value)).and_then(|r| r) {
                Err(f) => f,
                Ok(_) => Fail::new(
                    "flaky: shrunk case passed on re-run",
                    format!("the minimal case did not fail when re-executed; it had failed with: {reason}"),
                ),
            };
            let is_harness = fail.sig.starts_with("harness:");
            let is_known = known_sigs.contains(&fail.sig);
            st.failure = Some((serde_json::to_value(&value).unwrap_or(Value::Null), fail));
            if !is_harness && !is_known {
                request_stop();
            }
        }
        Err(TestError::Abort(reason)) => {
            eprintln!("HARNESS: proptest aborted: {reason}");
            std::process::exit(2);
        }
    }
    st
}

/// Run a generated campaign on `ctx.workers` threads. Known findings met during the campaign
/// are reported and the campaign continues with fresh derived seeds.
pub fn run_campaign<S, M, F>(ctx: &mut Ctx, cfg: CampaignCfg, make_strategy: M, test: F)
where
    S: Strategy,
    M: Fn() -> S + Sync,
    S::Value: Serialize + std::fmt::Debug,
    F: Fn(&S::Value) -> CaseResult + Sync,
{
    let workers = ctx.workers.max(1).min(cfg.cases.max(1) as usize);
    // an isolated child runs its share of the cases on one thread
    let (child_index, child_total, child_restart) = match &ctx.child {
        Some(c) => (c.index as u64 + 1, c.total.max(1), c.restart as u64),
        None => (0, 1, 0),
    };
    let already_done: usize = std::env::var("VERIF_CASES_DONE").ok().and_then(|s| s.parse().ok()).unwrap_or(0);
    let per = ((cfg.cases as usize).div_ceil(child_total)).saturating_sub(already_done).div_ceil(workers) as u32;
    // an isolated child persists its progress so that its counts survive a process-level death
    let progress_base: Option<(String, crate::isolate::Partial)> = ctx.child.as_ref().map(|c| (format!("{}.progress", c.out), crate::isolate::snapshot(ctx)));
    let progress_base = &progress_base;
    let camp_name = cfg.name;
    let camp_hash = stable_hash(&cfg.name);
    let seed = ctx.seed;
    let want_samples = if ctx.samples.len() < 6 { 2 } else { 0 };
    let known_sigs: Vec<String> = ctx.known.iter().map(|k| k.signature.clone()).collect();
    let known_sigs = &known_sigs;
    let results: Vec<Vec<WorkerStats>> = std::thread::scope(|scope| {
        let mut handles = vec![];
        for w in 0..workers {
            let make_strategy = &make_strategy;
            let test = &test;
            let cfg = &cfg;
            handles.push(
                std::thread::Builder::new()
                    .stack_size(64 << 20)
                    .spawn_scoped(scope, move || {
                        let strategy = make_strategy();
                        let strategy = &strategy;
                        let mut out = vec![];
                        let mut remaining = per;
                        let mut restart = 0u32;
                        while remaining > 0 {
                            let sb = derive_seed(seed, &[camp_hash, w as u64, restart as u64, child_index, child_restart]);
                            let done_before: u32 = out.iter().map(|s: &WorkerStats| s.done_cases).sum();
                            let progress = |st: &WorkerStats| {
                                if let Some((path, base)) = progress_base {
                                    let mut p = base.clone();
                                    p.evaluations += st.evaluations;
                                    p.nontrivial.extend(st.nontrivial.iter().cloned());
                                    for (l, n) in &st.labels {
                                        *p.labels.entry(format!("{camp_name}:{l}")).or_default() += *n;
                                    }
                                    for (s, n) in &st.known_hits {
                                        *p.known_hits.entry(s.clone()).or_default() += *n;
                                    }
                                    p.done_cases = done_before + st.done_cases;
                                    let tmp = format!("{path}.tmp");
                                    if std::fs::write(&tmp, serde_json::to_string(&p).unwrap_or_default()).is_ok() {
                                        let _ = std::fs::rename(&tmp, path);
                                    }
                                }
                            };
                            let st = run_one(sb, remaining, cfg.max_shrink_iters, strategy, test, want_samples, known_sigs, &progress);
                            remaining = remaining.saturating_sub(st.done_cases.max(1));
                            let failed = st.failure.is_some();
                            out.push(st);
                            if failed {
                                restart += 1;
                                if restart > cfg.max_restarts || stop_requested() {
                                    break;
                                }
                            } else {
                                break;
                            }
                        }
                        out
                    })
                    .unwrap(),
            );
        }
        handles.into_iter().map(|h| h.join().unwrap()).collect()
    });
    for wr in results {
        for st in wr {
            ctx.evaluations += st.evaluations;
            ctx.nontrivial.extend(st.nontrivial);
            for (l, n) in st.labels {
                *ctx.labels.entry(format!("{}:{}", cfg.name, l)).or_default() += n;
            }
            for s in st.samples {
                if ctx.samples.len() < 8 {
                    ctx.samples.push(json!({"campaign": cfg.name, "case": s}));
                }
            }
            for (sig, n) in st.known_hits {
                if !ctx.known_hits.contains_key(&sig) {
                    if let Some(k) = ctx.is_known(&sig) {
                        println!("KNOWN-FINDING: property={} {}", ctx.id, k.text);
                    }
                }
                *ctx.known_hits.entry(sig).or_default() += n;
            }
            if let Some((case, fail)) = st.failure {
                ctx.record_failure(cfg.name, &case, &fail);
            }
        }
    }
}

/// Replay the saved regression cases of a campaign (bypasses proptest).
pub fn replay_saved<T, F>(ctx: &mut Ctx, campaign: &str, test: F)
where
    T: for<'de> Deserialize<'de> + Serialize,
    F: Fn(&T) -> CaseResult,
{
    if ctx.child.as_ref().map(|c| c.index != 0 || c.restart != 0).unwrap_or(false) {
        return; // the regression tier runs once, in the first child
    }
    for (path, rf) in list_replays(&ctx.id, campaign) {
        let case: T = match serde_json::from_value(rf.case.clone()) {
            Ok(c) => c,
            Err(e) => {
                eprintln!("HARNESS: stale replay file {} ignored: {e}", path.display());
                continue;
            }
        };
        ctx.replayed += 1;
        match test(&case) {
            Ok(info) => {
                ctx.absorb(hash_json(&case), &info);
            }
            Err(fail) => {
                ctx.evaluations += 1;
                ctx.record_failure(campaign, &case, &fail);
            }
        }
    }
}

/// Run one explicit replay file (strict), for `--replay`.
pub fn replay_file<T, F>(path: &str, test: F) -> i32
where
    T: for<'de> Deserialize<'de>,
    F: Fn(&T) -> CaseResult,
{
    let s = match std::fs::read_to_string(path) {
        Ok(s) => s,
        Err(e) => {
            eprintln!("HARNESS: cannot read {path}: {e}");
            return 2;
        }
    };
    let rf: ReplayFile = match serde_json::from_str(&s) {
        Ok(r) => r,
        Err(e) => {
            eprintln!("HARNESS: cannot parse {path}: {e}");
            return 2;
        }
    };
    let case: T = match serde_json::from_value(rf.case) {
        Ok(c) => c,
        Err(e) => {
            eprintln!("HARNESS: cannot decode case in {path}: {e}");
            return 2;
        }
    };
    match test(&case) {
        Ok(_) => {
            println!("replay {path}: property held");
            0
        }
        Err(f) => {
            println!("VIOLATION property={} replay={}", rf.property, path);
            println!("  signature: {}", f.sig);
            println!("  detail: {}", truncate(&f.detail, 4000));
            1
        }
    }
}

pub fn new_tree_value<S: Strategy>(s: &S, runner: &mut TestRunner) -> S::Value {
    s.new_tree(runner).expect("strategy").current()
}

pub fn det_runner(seed: [u8; 32]) -> TestRunner {
    let rng = proptest::test_runner::TestRng::from_seed(RngAlgorithm::ChaCha, &seed);
    TestRunner::new_with_rng(
        Config {
            failure_persistence: None,
            ..Config::default()
        },
        rng,
    )
}

/// Monotone index mapping (keeps shrinking effective): maps a u16 selector onto 0..len.
pub fn pick(sel: u16, len: usize) -> usize {
    if len == 0 {
        0
    } else {
        ((sel as usize) * len) >> 16
    }
}

pub type LabelSet = BTreeSet<String>;

pub fn db_err(msg: &str) -> agdb::DbError {
    agdb::DbError::query(agdb::DbErrorType::NotAllowed, msg)
}

// ---------------------------------------------------------------------------------------
// scratch files

static SCRATCH_COUNTER: std::sync::atomic::AtomicU64 = std::sync::atomic::AtomicU64::new(0);

pub fn scratch_root() -> PathBuf {
    let base = std::env::var("VERIF_SCRATCH").unwrap_or_else(|_| "/tmp".into());
    let p = PathBuf::from(base).join(format!("verif-{}", std::process::id()));
    let _ = std::fs::create_dir_all(&p);
    p
}

/// A fresh sub-directory of the process scratch root.
pub fn fresh_dir(tag: &str) -> PathBuf {
    let n = SCRATCH_COUNTER.fetch_add(1, std::sync::atomic::Ordering::Relaxed);
    let p = scratch_root().join(format!("{tag}-{n}"));
    std::fs::create_dir_all(&p).expect("cannot create scratch dir");
    p
}

pub fn cleanup_scratch() {
    let _ = std::fs::remove_dir_all(scratch_root());
}

/// A directory removed on drop.
pub struct TempDir(pub PathBuf);
impl TempDir {
    pub fn new(tag: &str) -> Self {
        TempDir(fresh_dir(tag))
    }
    pub fn file(&self, name: &str) -> String {
        self.0.join(name).to_string_lossy().to_string()
    }
}
impl Drop for TempDir {
    fn drop(&mut self) {
        let _ = std::fs::remove_dir_all(&self.0);
    }
}
