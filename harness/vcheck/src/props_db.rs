//! C08, C09, C10, C11, C18: model-based histories on the public query API.
use crate::core::*;
use crate::vgen::{self, Profile, Step};
use crate::hist::*;
use crate::model::RefDb;
use agdb::{DbMemory};

fn run_case(steps: &Vec<Step>, opts: &HistOpts) -> Result<(RefDb, HistInfo), Fail> {
    let mut model = RefDb::default();
    let mut db = catch(|| DbMemory::new("verif-mem"))?.map_err(|e| Fail::new("harness: cannot create DbMemory", format!("{e:?}")))?;
    let mut info = HistInfo::default();
    run_history(&mut model, &mut db, steps, opts, &mut info)?;
    Ok((model, info))
}

fn common_labels(ci: &mut CaseInfo, m: &RefDb, info: &HistInfo) {
    let s = &m.stats;
    if s.ids_reused > 0 {
        ci.label("id reused after removal");
    }
    if s.reused_other_kind > 0 {
        ci.label("slot reused by other element kind");
    }
    if s.nodes_removed_with_2_edges > 0 {
        ci.label("node with >=2 edges removed");
    }
    if s.replaced_non_last > 0 {
        ci.label("in-place replacement of non-last key");
    }
    if s.alias_steals > 0 {
        ci.label("alias stolen");
    }
    if s.alias_realias > 0 {
        ci.label("node re-aliased");
    }
    if s.aliased_node_removed > 0 {
        ci.label("aliased node removed");
    }
    if s.replaced_indexed > 0 {
        ci.label("replacement on indexed key");
    }
    if s.cascade_indexed_edge > 0 {
        ci.label("cascade removal of indexed edge");
    }
    if info.failed_steps > 0 {
        ci.label("history contains a failing query");
    }
    if info.rolled_back_tx > 0 {
        ci.label("rolled-back transaction");
    }
    if s.out_of_line_values > 0 {
        ci.label("out-of-line value");
    }
    info.export(ci);
    ci.count("steps executed", info.steps as u64);
    ci.count("dump comparisons", info.dumps as u64);
}

pub fn c08(ctx: &mut Ctx) {
    ctx.rule = "histories of node/edge inserts (count, aliases, values, pairwise/each/asymmetric, by id, alias and search) and removals by id/alias/search with 15% invalid references, executed on DbMemory in lock-step with the reference multigraph; after every step the query result and the full canonical dump (node count, element set, endpoints, per-node edge lists and counts) are compared. Non-trivial: >=1 id reused after removal AND >=1 node with >=2 edges removed. Distinct = hash of the generated history.".into();
    let mut p = Profile::general();
    p.grow_shrink_pct = 5;
    p.w_insert_values = 1;
    p.w_insert_index = 0;
    p.w_remove_index = 0;
    p.w_remove_values = 0;
    p.w_insert_aliases = 2;
    p.w_insert_nodes_ids = 1;
    p.w_insert_edges_ids = 1;
    p.w_insert_edges = 14;
    p.w_remove = 12;
    p.w_reads = 6;
    p.invalid_pct = 15;
    let (lo, hi) = ctx.tier.pick((30, 120), (30, 200));
    let cases = ctx.tier.pick(30_000, 300_000);
    let strat = move || vgen::history(&p, lo, hi);
    let opts = HistOpts::default();
    let test = move |steps: &Vec<Step>| -> CaseResult {
        let (m, info) = run_case(steps, &opts)?;
        let mut ci = CaseInfo::default();
        common_labels(&mut ci, &m, &info);
        ci.nontrivial = m.stats.ids_reused > 0 && m.stats.nodes_removed_with_2_edges > 0;
        Ok(ci)
    };
    replay_saved::<Vec<Step>, _>(ctx, "c08-history", &test);
    run_campaign(
        ctx,
        CampaignCfg {
            name: "c08-history",
            cases,
            max_shrink_iters: 4000,
            max_restarts: 3,
        },
        strat,
        test,
    );
}

pub fn c09(ctx: &mut Ctx) {
    ctx.rule = "histories focused on properties: insert values single/multi/uniform by id, alias and search, insert-or-update of nodes and edges through ids, remove values, element removal and id reuse, and reads (all values, by distinct keys in arbitrary order incl. missing keys, keys, key_count) by ids and by search; keys within one insert list are distinct. Every result and the full dump are compared with the reference ordered key-value map after every step. Non-trivial: >=1 in-place replacement of a non-last key AND >=1 id reuse of an element that had values.".into();
    let mut p = Profile::general();
    p.grow_shrink_pct = 5;
    p.w_insert_values = 25;
    p.w_insert_nodes_ids = 6;
    p.w_insert_edges_ids = 6;
    p.w_remove_values = 10;
    p.w_insert_index = 0;
    p.w_remove_index = 0;
    p.w_insert_aliases = 1;
    p.w_remove_aliases = 0;
    p.w_reads = 25;
    p.w_remove = 8;
    let (lo, hi) = ctx.tier.pick((30, 100), (30, 200));
    let cases = ctx.tier.pick(30_000, 300_000);
    let strat = move || vgen::history(&p, lo, hi);
    let opts = HistOpts::default();
    let test = move |steps: &Vec<Step>| -> CaseResult {
        let (m, info) = run_case(steps, &opts)?;
        let mut ci = CaseInfo::default();
        common_labels(&mut ci, &m, &info);
        if m.stats.reused_had_values > 0 {
            ci.label("reused id of element that had values");
        }
        ci.nontrivial = m.stats.replaced_non_last > 0 && m.stats.reused_had_values > 0;
        Ok(ci)
    };
    replay_saved::<Vec<Step>, _>(ctx, "c09-history", &test);
    run_campaign(
        ctx,
        CampaignCfg {
            name: "c09-history",
            cases,
            max_shrink_iters: 4000,
            max_restarts: 3,
        },
        strat,
        test,
    );
}

pub fn c10(ctx: &mut Ctx) {
    ctx.rule = "histories focused on aliases: insert nodes with new/existing aliases, insert aliases on existing nodes (fresh, re-alias, steal, same again), on edge ids and on missing ids, empty alias through every entry point (insert aliases, insert nodes with aliases, insert nodes by ids with aliases, insert values with new alias), remove aliases, node/edge removal and id reuse; the alias<->node bijection is read back after every step via select all aliases, per-node select aliases (Err iff none) and alias resolution; rejected operations must leave the dump unchanged. Non-trivial: >=1 steal or re-alias AND >=1 removal of an aliased node.".into();
    let mut p = Profile::general();
    p.grow_shrink_pct = 5;
    p.w_insert_nodes = 12;
    p.w_insert_nodes_ids = 6;
    p.w_insert_aliases = 25;
    p.w_remove_aliases = 8;
    p.w_insert_values = 5;
    p.w_insert_index = 0;
    p.w_remove_index = 0;
    p.w_remove_values = 0;
    p.w_insert_edges = 6;
    p.w_remove = 10;
    p.w_reads = 12;
    p.values_on_insert = false;
    p.empty_alias = true;
    p.alias_on_edge = true;
    let (lo, hi) = ctx.tier.pick((20, 80), (20, 160));
    let cases = ctx.tier.pick(30_000, 300_000);
    let strat = move || vgen::history(&p, lo, hi);
    let opts = HistOpts::default();
    let test = move |steps: &Vec<Step>| -> CaseResult {
        let (m, info) = run_case(steps, &opts)?;
        let mut ci = CaseInfo::default();
        common_labels(&mut ci, &m, &info);
        ci.nontrivial = (m.stats.alias_steals > 0 || m.stats.alias_realias > 0) && m.stats.aliased_node_removed > 0;
        Ok(ci)
    };
    replay_saved::<Vec<Step>, _>(ctx, "c10-history", &test);
    run_campaign(
        ctx,
        CampaignCfg {
            name: "c10-history",
            cases,
            max_shrink_iters: 4000,
            max_restarts: 3,
        },
        strat,
        test,
    );
}

pub fn c11(ctx: &mut Ctx) {
    ctx.rule = "histories mixing value inserts/replacements/removals on indexed and non-indexed keys (pool of 8 keys), element removal incl. cascaded edges, index create (also when it exists) / remove (also absent), failing queries and rolled-back transactions; after every step, for every indexed key K and every value V in pool U present values, search().index(K).value(V) is compared as a multiset with the model, and select().indexes() with the per-key element counts. Non-trivial: >=1 replacement on an indexed key AND >=1 cascade removal touching an indexed edge AND >=1 rollback.".into();
    let mut p = Profile::general();
    p.grow_shrink_pct = 5;
    p.w_insert_index = 8;
    p.w_remove_index = 3;
    p.w_insert_values = 25;
    p.w_remove_values = 8;
    p.w_insert_edges = 10;
    p.w_remove = 10;
    p.w_insert_aliases = 1;
    p.w_remove_aliases = 0;
    p.w_reads = 8;
    p.w_tx = 8;
    let (lo, hi) = ctx.tier.pick((30, 90), (30, 160));
    let cases = ctx.tier.pick(24_000, 200_000);
    let strat = move || vgen::history(&p, lo, hi);
    let opts = HistOpts::default();
    let test = move |steps: &Vec<Step>| -> CaseResult {
        let (m, info) = run_case(steps, &opts)?;
        let mut ci = CaseInfo::default();
        common_labels(&mut ci, &m, &info);
        if !m.indexes.is_empty() {
            ci.label("index present at end");
        }
        ci.nontrivial = m.stats.replaced_indexed > 0 && m.stats.cascade_indexed_edge > 0 && (info.rolled_back_tx > 0 || info.failed_steps > 0);
        Ok(ci)
    };
    replay_saved::<Vec<Step>, _>(ctx, "c11-history", &test);
    run_campaign(
        ctx,
        CampaignCfg {
            name: "c11-history",
            cases,
            max_shrink_iters: 4000,
            max_restarts: 3,
        },
        strat,
        test,
    );
}

pub fn replay(path: &str) -> i32 {
    replay_file::<Vec<Step>, _>(path, |steps| {
        run_case(steps, &HistOpts::default()).map(|_| CaseInfo::default())
    })
}
