//! C07: opening or reading a damaged database file never crashes the process.
use crate::core::*;
use crate::exec::*;
use crate::hist::*;
use crate::model::*;
use crate::props_storage::wal_name;
use crate::query::*;
use crate::val::*;
use crate::vgen::{self, Profile, Step};
use agdb::{Db, DbFile, DbImpl, DbMemory, StorageData};
use proptest::prelude::*;
use serde::{Deserialize, Serialize};
use std::sync::atomic::{AtomicUsize, Ordering};
use std::time::Duration;

#[derive(Clone, Debug, Serialize, Deserialize)]
pub enum Damage {
    /// cut the file at a record boundary (selector) plus a small delta
    TruncateAtRecord(u16, i8),
    TruncateAt(u16),
    FlipBits(Vec<(u16, u8)>),
    /// overwrite the index (false) or size (true) field of a record header with a boundary value
    Header(u16, bool, u8),
    /// overwrite 8 bytes anywhere with a boundary value
    Word(u16, u8),
    /// overwrite one of the six words of the root record (version + storage indexes)
    Root(u8, u8),
    /// overwrite a byte with a value-index type/size nibble candidate
    Byte(u16, u8),
    /// replace the whole file
    Garbage(Vec<u8>),
    None,
}

#[derive(Clone, Debug, Serialize, Deserialize)]
pub enum LogDamage {
    None,
    Garbage(Vec<u8>),
    /// a syntactically valid record (pos, len, bytes) with generated fields
    Record(u8, u8, Vec<u8>),
    /// header announcing more bytes than follow
    Oversized(u8, u8),
}

#[derive(Clone, Debug, Serialize, Deserialize)]
pub struct DamageCase {
    pub history: Vec<Step>,
    pub damage: Vec<Damage>,
    pub log: LogDamage,
}

fn boundary(k: u8, count: u64) -> u64 {
    match k % 12 {
        0 => 0,
        1 => 1,
        2 => count.wrapping_sub(1),
        3 => count.wrapping_add(1),
        4 => 1 << 32,
        5 => 1 << 63,
        6 => u64::MAX,
        7 => u64::MAX - 15,
        8 => 1 << 40,
        9 => count,
        10 => 2,
        _ => 0x0101_0101_0101_0101,
    }
}

/// record boundaries of a valid storage file: (pos, index, size)
pub fn records(data: &[u8]) -> Vec<(usize, u64, u64)> {
    let mut out = vec![];
    let mut pos = 0usize;
    while pos + 16 <= data.len() {
        let index = u64::from_le_bytes(data[pos..pos + 8].try_into().unwrap());
        let size = u64::from_le_bytes(data[pos + 8..pos + 16].try_into().unwrap());
        out.push((pos, index, size));
        match (pos as u64).checked_add(16).and_then(|p| p.checked_add(size)) {
            Some(next) if next as usize <= data.len() && next as usize > pos => pos = next as usize,
            _ => break,
        }
    }
    out
}

fn apply_damage(data: &mut Vec<u8>, d: &Damage) {
    let recs = records(data);
    let count = recs.len() as u64;
    match d {
        Damage::None => {}
        Damage::TruncateAtRecord(s, delta) => {
            if !recs.is_empty() {
                let (pos, _, _) = recs[pick(*s, recs.len())];
                let cut = (pos as i64 + *delta as i64).clamp(0, data.len() as i64) as usize;
                data.truncate(cut);
            }
        }
        Damage::TruncateAt(s) => {
            let cut = pick(*s, data.len() + 1);
            data.truncate(cut);
        }
        Damage::FlipBits(v) => {
            for (s, b) in v {
                if !data.is_empty() {
                    let p = pick(*s, data.len());
                    data[p] ^= 1 << (b % 8);
                }
            }
        }
        Damage::Header(s, size_field, k) => {
            if !recs.is_empty() {
                let (pos, _, _) = recs[pick(*s, recs.len())];
                let at = pos + if *size_field { 8 } else { 0 };
                if at + 8 <= data.len() {
                    let v = boundary(*k, if *size_field { (data.len() - pos) as u64 } else { count });
                    data[at..at + 8].copy_from_slice(&v.to_le_bytes());
                }
            }
        }
        Damage::Word(s, k) => {
            if data.len() >= 8 {
                let p = pick(*s, data.len() - 7);
                let v = boundary(*k, count);
                data[p..p + 8].copy_from_slice(&v.to_le_bytes());
            }
        }
        Damage::Root(w, k) => {
            // the root record is the record with index 1; its value holds six u64 words
            if let Some((pos, _, size)) = recs.iter().find(|(_, i, _)| *i == 1) {
                let at = pos + 16 + (*w as usize % 6) * 8;
                if *size >= 48 && at + 8 <= data.len() {
                    let v = boundary(*k, count);
                    data[at..at + 8].copy_from_slice(&v.to_le_bytes());
                }
            }
        }
        Damage::Byte(s, v) => {
            if !data.is_empty() {
                let p = pick(*s, data.len());
                data[p] = *v;
            }
        }
        Damage::Garbage(g) => *data = g.clone(),
    }
}

fn make_log(l: &LogDamage, data_len: usize) -> Option<Vec<u8>> {
    match l {
        LogDamage::None => None,
        LogDamage::Garbage(g) => Some(g.clone()),
        LogDamage::Record(p, n, bytes) => {
            let mut v = vec![];
            v.extend(boundary(*p, data_len as u64).to_le_bytes());
            let len = if n % 2 == 0 { bytes.len() as u64 } else { boundary(*n, bytes.len() as u64) };
            v.extend(len.to_le_bytes());
            v.extend(bytes);
            Some(v)
        }
        LogDamage::Oversized(p, n) => {
            let mut v = vec![];
            v.extend(((*p as u64) * 8).to_le_bytes());
            v.extend(boundary(*n, 1 << 20).to_le_bytes());
            v.extend([1, 2, 3]);
            Some(v)
        }
    }
}

/// Reads as much as possible of an opened (possibly damaged) database; every query may fail,
/// none may panic. Bounded operations first, unbounded scans last.
fn read_everything<S: StorageData>(db: &DbImpl<S>, file_len: usize) -> Result<u64, Fail> {
    let mut queries = 0u64;
    let mut run = |q: CQuery| -> Result<Option<agdb::QueryResult>, Fail> {
        queries += 1;
        catch(|| run_read(db, &q)).map(|r| r.ok())
    };
    let n = run(CQuery::SelectNodeCount)?.map(|r| r.result).unwrap_or(0);
    let bound = ((file_len / 32) as i64).min(400).max(8).max((n as i64).min(400));
    for id in 1..=bound {
        for sid in [id, -id] {
            if run(CQuery::SelectValues { ids: QIds::Ids(vec![QId::Id(sid)]), keys: vec![] })?.is_some() {
                run(CQuery::SelectKeys(QIds::Ids(vec![QId::Id(sid)])))?;
                run(CQuery::SelectKeyCount(QIds::Ids(vec![QId::Id(sid)])))?;
                if sid > 0 {
                    run(CQuery::SelectAliases(QIds::Ids(vec![QId::Id(sid)])))?;
                    run(CQuery::SelectEdgeCount { ids: QIds::Ids(vec![QId::Id(sid)]), from: true, to: true })?;
                    let mut s = CSearch::from(QId::Id(sid));
                    s.limit = 50;
                    run(CQuery::Search(s.clone()))?;
                    s.algo = Algo::Dfs;
                    run(CQuery::Search(s))?;
                    let mut s = CSearch::to(QId::Id(sid));
                    s.limit = 50;
                    run(CQuery::Search(s))?;
                }
            }
        }
    }
    for a in alias_pool() {
        run(CQuery::SelectValues { ids: QIds::Ids(vec![QId::Alias(a)]), keys: vec![] })?;
    }
    if let Some(r) = run(CQuery::SelectIndexes)? {
        for el in actual_elems(&r) {
            for (k, _) in el.values {
                for v in value_pool().into_iter().take(6) {
                    run(CQuery::Search(CSearch::index(k.clone(), v)))?;
                }
            }
        }
    }
    // unbounded scans last
    run(CQuery::SelectAllAliases)?;
    let mut s = CSearch::elements();
    s.limit = 1000;
    run(CQuery::Search(s))?;
    Ok(queries)
}

static RUNAWAYS: AtomicUsize = AtomicUsize::new(0);
const MAX_RUNAWAYS: usize = 6;

/// Runs `f` on a helper thread with a time limit. A case that does not return is *undecided*
/// (the property lists panic, abort and enormous allocation, not non-termination): its thread
/// is abandoned and the campaign continues.
fn with_limit<T: Send + 'static>(limit: Duration, f: impl FnOnce() -> T + Send + 'static) -> Option<T> {
    let (tx, rx) = std::sync::mpsc::channel();
    let _ = std::thread::Builder::new().stack_size(32 << 20).spawn(move || {
        let _ = tx.send(f());
    });
    match rx.recv_timeout(limit) {
        Ok(v) => Some(v),
        Err(_) => {
            RUNAWAYS.fetch_add(1, Ordering::SeqCst);
            crate::isolate::note_runaway();
            None
        }
    }
}

/// A valid database file (clean close) produced by a history; None if the history fails.
pub fn valid_file_pub(history: &[crate::vgen::Step]) -> Option<Vec<u8>> {
    let dir = TempDir::new("c07seed");
    let name = dir.file("valid.agdb");
    let mut db = DbFile::new(&name).ok()?;
    let mut model = RefDb::default();
    let mut info = HistInfo::default();
    run_history(&mut model, &mut db, history, &HistOpts { dump_every: 0, check_after_failure: true }, &mut info).ok()?;
    drop(db);
    std::fs::read(&name).ok()
}

/// For the libFuzzer target: the bytes as a database file (plus an optional recovery log),
/// opened with every variant and read completely, without helper threads (the fuzzer's own
/// timeout handles reads that never return).
pub fn open_and_read_pub(data: &[u8], log: Option<&[u8]>) -> Result<(), Fail> {
    let dir = TempDir::new("c07f");
    for opener in 0..3u8 {
        let path = dir.file(&format!("fuzz-{opener}.agdb"));
        std::fs::write(&path, data).map_err(|e| Fail::new("harness: write", format!("{e:?}")))?;
        if let Some(l) = log {
            std::fs::write(wal_name(&path), l).map_err(|e| Fail::new("harness: write log", format!("{e:?}")))?;
        }
        let name = ["Db::new", "DbFile::new", "DbMemory::new"][opener as usize];
        let r: Result<(), Fail> = (|| {
            match opener {
                0 => {
                    if let Ok(db) = catch(|| Db::new(&path))? {
                        read_everything(&db, data.len())?;
                    }
                }
                1 => {
                    if let Ok(db) = catch(|| DbFile::new(&path))? {
                        read_everything(&db, data.len())?;
                    }
                }
                _ => {
                    if let Ok(db) = catch(|| DbMemory::new(&path))? {
                        read_everything(&db, data.len())?;
                    }
                }
            }
            Ok(())
        })();
        r.map_err(|mut f| {
            f.sig = format!("damaged file: {}", f.sig);
            f.detail = format!("{} ({name})", f.detail);
            f
        })?;
    }
    Ok(())
}

fn c07_case(c: &DamageCase) -> CaseResult {
    let mut ci = CaseInfo::default();
    if RUNAWAYS.load(Ordering::SeqCst) >= MAX_RUNAWAYS {
        ci.label("skipped: too many runaway reader threads in this worker");
        return Ok(ci);
    }
    let dir = TempDir::new("c07");
    let valid = {
        let name = dir.file("valid.agdb");
        let mut db = DbFile::new(&name).map_err(|e| Fail::new("harness: DbFile::new", format!("{e:?}")))?;
        let mut model = RefDb::default();
        let mut info = HistInfo::default();
        run_history(&mut model, &mut db, &c.history, &HistOpts { dump_every: 0, check_after_failure: true }, &mut info)?;
        drop(db);
        std::fs::read(&name).map_err(|e| Fail::new("harness: read valid file", format!("{e:?}")))?
    };
    let mut data = valid.clone();
    for d in &c.damage {
        apply_damage(&mut data, d);
    }
    let log = make_log(&c.log, data.len());
    let differs = data != valid || log.is_some();
    let past_version = data.len() >= 24 && data[..24] == valid[..24.min(valid.len())];
    let mut outcomes = vec![];
    for opener in 0..3u8 {
        let path = dir.file(&format!("damaged-{opener}.agdb"));
        std::fs::write(&path, &data).map_err(|e| Fail::new("harness: write", format!("{e:?}")))?;
        if let Some(l) = &log {
            std::fs::write(wal_name(&path), l).map_err(|e| Fail::new("harness: write log", format!("{e:?}")))?;
        }
        let file_len = data.len();
        let name = ["Db::new", "DbFile::new", "DbMemory::new"][opener as usize];
        let p2 = path.clone();
        let r = with_limit(Duration::from_secs(3), move || -> Result<(bool, u64), Fail> {
            match opener {
                0 => match catch(|| Db::new(&p2))? {
                    Ok(db) => Ok((true, read_everything(&db, file_len)?)),
                    Err(_) => Ok((false, 0)),
                },
                1 => match catch(|| DbFile::new(&p2))? {
                    Ok(db) => Ok((true, read_everything(&db, file_len)?)),
                    Err(_) => Ok((false, 0)),
                },
                _ => match catch(|| DbMemory::new(&p2))? {
                    Ok(db) => Ok((true, read_everything(&db, file_len)?)),
                    Err(_) => Ok((false, 0)),
                },
            }
        });
        match r {
            None => {
                ci.count(format!("undecided (no answer within 3 s): {name}"), 1);
                outcomes.push("undecided");
                // do not touch the files of a thread that is still running
                std::mem::forget(dir);
                return Ok(ci);
            }
            Some(Err(mut f)) => {
                f.sig = format!("damaged file: {}", f.sig);
                f.detail = format!("{} ({name}; damage {:?}; log {:?})", f.detail, c.damage, c.log);
                return Err(f);
            }
            Some(Ok((opened, q))) => {
                ci.evals += 1;
                ci.count(format!("{name} {}", if opened { "opened" } else { "rejected" }), 1);
                ci.count("read queries on damaged databases", q);
                outcomes.push(if opened { "opened" } else { "rejected" });
            }
        }
    }
    ci.nontrivial = differs && past_version;
    for d in &c.damage {
        ci.count(
            format!(
                "damage {}",
                match d {
                    Damage::TruncateAtRecord(_, _) => "truncate at record boundary",
                    Damage::TruncateAt(_) => "truncate",
                    Damage::FlipBits(_) => "bit flips",
                    Damage::Header(_, false, _) => "record index field",
                    Damage::Header(_, true, _) => "record size field",
                    Damage::Word(_, _) => "8-byte word",
                    Damage::Root(_, _) => "root record word",
                    Damage::Byte(_, _) => "single byte",
                    Damage::Garbage(_) => "garbage file",
                    Damage::None => "none",
                }
            ),
            1,
        );
    }
    if log.is_some() {
        ci.label("with a damaged recovery log");
    }
    Ok(ci)
}

fn damage() -> impl Strategy<Value = Damage> {
    prop_oneof![
        3 => (any::<u16>(), prop::sample::select(vec![0i8, 1, -1, 8, -8])).prop_map(|(s, d)| Damage::TruncateAtRecord(s, d)),
        2 => any::<u16>().prop_map(Damage::TruncateAt),
        3 => prop::collection::vec((any::<u16>(), any::<u8>()), 1..4).prop_map(Damage::FlipBits),
        5 => (any::<u16>(), any::<bool>(), any::<u8>()).prop_map(|(s, f, k)| Damage::Header(s, f, k)),
        5 => (any::<u16>(), any::<u8>()).prop_map(|(s, k)| Damage::Word(s, k)),
        3 => (any::<u8>(), any::<u8>()).prop_map(|(w, k)| Damage::Root(w, k)),
        3 => (any::<u16>(), prop_oneof![Just(0u8), Just(0x0f), Just(0xf0), Just(0xff), any::<u8>()]).prop_map(|(s, v)| Damage::Byte(s, v)),
        1 => prop::collection::vec(any::<u8>(), 0..4096).prop_map(Damage::Garbage),
    ]
}

fn damage_case() -> impl Strategy<Value = DamageCase> {
    let mut p = Profile::general();
    p.w_reads = 0;
    p.w_insert_index = 4;
    p.max_count = 6;
    let log = prop_oneof![
        6 => Just(LogDamage::None),
        1 => prop::collection::vec(any::<u8>(), 1..64).prop_map(LogDamage::Garbage),
        2 => (any::<u8>(), any::<u8>(), prop::collection::vec(any::<u8>(), 0..32)).prop_map(|(p, n, b)| LogDamage::Record(p, n, b)),
        1 => (any::<u8>(), any::<u8>()).prop_map(|(p, n)| LogDamage::Oversized(p, n)),
    ];
    (vgen::history(&p, 3, 25), prop::collection::vec(damage(), 1..3), log).prop_map(|(history, damage, log)| DamageCase { history, damage, log })
}

pub fn c07(ctx: &mut Ctx) {
    crate::fuzz_api::replay_raw_saved(ctx);
    ctx.rule = "valid database files produced by generated histories through the public API (clean close), damaged by 1-2 structured mutations: truncation at a parsed record boundary +-{0,1,8} or anywhere, bit flips, overwriting the index or size field of a parsed record header / a word of the root record / any 8-byte word with boundary values (0, 1, 2, count+-1, 2^32, 2^40, 2^63, u64::MAX, u64::MAX-15), single bytes (value-index type/size nibbles), random files of 0..4 KiB; with or without a recovery log that is garbage, a valid-looking record with boundary position/length, or an oversized length. Each image is opened with Db::new, DbFile::new and DbMemory::new (own copies) in isolated child processes with a 64 MiB single-allocation cap; if it opens, everything is read: node count, every id in a range bounded by the file size (values, keys, key count, alias, edge count, bfs/dfs from/to with limit), pool aliases, indexes and index searches, then the unbounded scans (all aliases, elements). Oracle: every call returns Ok or Err - no panic, abort, or enormous allocation. A call that does not answer within 3 s is undecided (counted, not judged). evaluations = image x opener. Non-trivial: the image differs from the valid file and its version record is intact (so validation, not the first read, is exercised). Distinct = hash of the case.".into();
    let cases = ctx.tier.pick(2500, 60_000);
    replay_saved::<DamageCase, _>(ctx, "c07-damage", c07_case);
    run_campaign(ctx, CampaignCfg { name: "c07-damage", cases, max_shrink_iters: 300, max_restarts: 3 }, damage_case, c07_case);
    ctx.undecided += ctx.labels.iter().filter(|(k, _)| k.contains("undecided")).map(|(_, v)| *v).sum::<u64>();
}

pub fn c07_replay(path: &str) -> i32 {
    replay_file::<DamageCase, _>(path, c07_case)
}
