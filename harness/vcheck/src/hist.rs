//! History interpreter: runs generated steps on a real database and the reference model in
//! lock-step.
use crate::core::{Fail, catch};
use crate::exec::*;
use crate::vgen::Step;
use crate::model::*;
use crate::query::*;
use agdb::{DbError, DbImpl, StorageData};
use std::cell::RefCell;

#[derive(Clone, Debug)]
pub struct HistOpts {
    /// compare the full canonical dump every n successful steps (0 = only at the end)
    pub dump_every: usize,
    /// after a failed step / rolled back transaction compare order-insensitively and adopt
    /// the real order (C13 allows reordering); successful steps are compared exactly
    pub check_after_failure: bool,
}

impl Default for HistOpts {
    fn default() -> Self {
        HistOpts {
            dump_every: 1,
            check_after_failure: true,
        }
    }
}

#[derive(Clone, Debug, Default)]
pub struct HistInfo {
    pub steps: usize,
    pub ok_steps: usize,
    pub failed_steps: usize,
    pub rolled_back_tx: usize,
    pub committed_tx: usize,
    /// for failed units: how many successful mutations ran before the error (max over units)
    pub max_mutations_before_failure: usize,
    pub dumps: usize,
    pub trace: Vec<String>,
    /// per query kind: (accepted, rejected)
    pub kinds: std::collections::BTreeMap<&'static str, (u64, u64)>,
}

impl HistInfo {
    pub fn note(&mut self, kind: &'static str, ok: bool) {
        let e = self.kinds.entry(kind).or_default();
        if ok {
            e.0 += 1;
        } else {
            e.1 += 1;
        }
    }
    pub fn export(&self, ci: &mut crate::core::CaseInfo) {
        for (k, (a, r)) in &self.kinds {
            if *a > 0 {
                ci.count(format!("accepted {k}"), *a);
            }
            if *r > 0 {
                ci.count(format!("rejected {k}"), *r);
            }
        }
    }
}

pub enum StepResult {
    Ok,
    Failed { mutations_before: usize },
}

/// Execute one step. Returns whether the step took effect.
pub fn run_step<S: StorageData>(model: &mut RefDb, db: &mut DbImpl<S>, s: &Step, info: &mut HistInfo) -> Result<StepResult, Fail> {
    match s {
        Step::Q(q) => {
            let out = step(model, db, q)?;
            info.note(out.resolved.kind(), out.ok);
            info.trace.push(format!("{:?} -> {}", out.resolved, if out.ok { "Ok" } else { "Err" }));
            if out.ok {
                Ok(StepResult::Ok)
            } else {
                Ok(StepResult::Failed { mutations_before: 0 })
            }
        }
        Step::Tx { queries, fail_after } => {
            let snapshot = model.clone();
            let fail: RefCell<Option<Fail>> = RefCell::new(None);
            let done = RefCell::new(0usize);
            let trace = RefCell::new(vec![]);
            let kinds: RefCell<Vec<(&'static str, bool)>> = RefCell::new(vec![]);
            let model_cell = RefCell::new(&mut *model);
            let res = catch(|| {
                db.transaction_mut(|t| -> Result<(), DbError> {
                    for (i, q) in queries.iter().enumerate() {
                        if *fail_after == Some(i as u8) {
                            return Err(crate::core::db_err("closure aborts the transaction"));
                        }
                        let mut m = model_cell.borrow_mut();
                        match step(&mut m, t, q) {
                            Ok(out) => {
                                kinds.borrow_mut().push((out.resolved.kind(), out.ok));
                                trace.borrow_mut().push(format!("  tx {:?} -> {}", out.resolved, if out.ok { "Ok" } else { "Err" }));
                                if !out.ok {
                                    return Err(crate::core::db_err("query failed inside transaction"));
                                }
                                if out.resolved.is_mut() {
                                    *done.borrow_mut() += 1;
                                }
                            }
                            Err(f) => {
                                *fail.borrow_mut() = Some(f);
                                return Err(crate::core::db_err("oracle failure"));
                            }
                        }
                    }
                    if let Some(k) = fail_after {
                        if *k as usize >= queries.len() {
                            return Err(crate::core::db_err("closure aborts the transaction at the end"));
                        }
                    }
                    Ok(())
                })
            });
            drop(model_cell);
            info.trace.push(format!("transaction(fail_after={fail_after:?})"));
            info.trace.extend(trace.into_inner());
            for (k, ok) in kinds.into_inner() {
                info.note(k, ok);
            }
            if let Some(f) = fail.into_inner() {
                return Err(f);
            }
            let res = res.map_err(|mut f| {
                f.detail = format!("{} inside transaction_mut {queries:?}", f.detail);
                f
            })?;
            match res {
                Ok(()) => {
                    info.committed_tx += 1;
                    info.trace.push("  -> committed".into());
                    Ok(StepResult::Ok)
                }
                Err(_) => {
                    *model = snapshot;
                    model.stats.failed_queries += 1;
                    info.rolled_back_tx += 1;
                    info.trace.push("  -> rolled back".into());
                    Ok(StepResult::Failed {
                        mutations_before: done.into_inner(),
                    })
                }
            }
        }
    }
}

pub fn run_history<S: StorageData>(model: &mut RefDb, db: &mut DbImpl<S>, steps: &[Step], opts: &HistOpts, info: &mut HistInfo) -> Result<(), Fail> {
    let mut since_dump = 0usize;
    for (i, s) in steps.iter().enumerate() {
        info.steps += 1;
        let r = run_step(model, db, s, info).map_err(|mut f| {
            f.detail = format!("{}\nstep {i}: {s:?}\ntrace:\n{}", f.detail, tail(&info.trace));
            f
        })?;
        match r {
            StepResult::Ok => {
                info.ok_steps += 1;
                since_dump += 1;
                if opts.dump_every > 0 && since_dump >= opts.dump_every {
                    since_dump = 0;
                    info.dumps += 1;
                    check_dump(model, db, true, "successful step").map_err(|mut f| {
                        f.detail = format!("{}\nafter step {i}: {s:?}\ntrace:\n{}", f.detail, tail(&info.trace));
                        f
                    })?;
                }
            }
            StepResult::Failed { mutations_before } => {
                info.failed_steps += 1;
                info.max_mutations_before_failure = info.max_mutations_before_failure.max(mutations_before);
                if opts.check_after_failure {
                    info.dumps += 1;
                    let real = check_dump(model, db, false, "failed step").map_err(|mut f| {
                        f.detail = format!("{}\nafter failed step {i}: {s:?}\ntrace:\n{}", f.detail, tail(&info.trace));
                        f
                    })?;
                    resync_order(model, &real);
                }
            }
        }
    }
    info.dumps += 1;
    check_dump(model, db, true, "end of history").map_err(|mut f| {
        f.detail = format!("{}\ntrace:\n{}", f.detail, tail(&info.trace));
        f
    })?;
    Ok(())
}

fn tail(trace: &[String]) -> String {
    let n = trace.len();
    let start = n.saturating_sub(60);
    trace[start..].join("\n")
}
