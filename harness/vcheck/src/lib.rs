pub mod core;
mod exec;
pub mod fuzz_api;
mod vgen;
mod props_server;
mod vserver;
mod hist;
pub mod isolate;
mod model;
mod props2;
mod props_cluster;
mod props_conc;
mod props_crash;
mod props_damage;
mod props_db;
mod props_search;
mod props_ser;
mod props_storage;
mod query;
mod val;

use crate::core::{Ctx, Tier};

#[global_allocator]
static ALLOC: isolate::Capped = isolate::Capped;

/// Properties whose campaigns run in isolated child processes: (campaign name whose case type
/// the saved failing input has, per-case watchdog in seconds).
fn isolated(id: &str) -> Option<(&'static str, u64)> {
    if std::env::var("VERIF_NO_ISOLATION").is_ok() {
        return None;
    }
    match id {
        "C01" => Some(("c01-crash", 60)),
        "C02" => Some(("c02-crash", 120)),
        "C03" => Some(("c03-crash", 120)),
        "C04" => Some(("c04-storage", 60)),
        // every check that runs database code: a change that corrupts memory sizes can abort
        // the process (allocation failure, stack overflow); in a child that is attributed to
        // the case in flight instead of killing the check
        "C05" => Some(("c05-maintenance", 120)),
        "C06" => Some(("c06-differential", 120)),
        "C08" => Some(("c08-history", 120)),
        "C09" => Some(("c09-history", 120)),
        "C10" => Some(("c10-history", 120)),
        "C11" => Some(("c11-history", 120)),
        "C12" => Some(("c12-values", 120)),
        "C13" => Some(("c13-rollback", 120)),
        "C14" => Some(("c14-search", 120)),
        "C15" => Some(("c15-search", 120)),
        "C16" => Some(("c16-search", 120)),
        "C17" => Some(("c17-search", 120)),
        "C18" => Some(("c18-search", 120)),
        "C22" => Some(("c22-types", 120)),
        "C07" => Some(("c07-damage", 30)),
        "C21" => Some(("c21-deserialize", 30)),
        // a race that corrupts a read can send the reader into an endless scan: watchdog
        "C23" => Some(("c23-concurrent", 90)),
        "C32" => Some(("c32-fault", 60)),
        _ => None,
    }
}

fn usage() -> ! {
    eprintln!("usage: vcheck <property id> [--tier quick|thorough] [--replay <file>]");
    std::process::exit(2)
}

pub fn main_entry() {
    let args: Vec<String> = std::env::args().collect();
    if args.len() < 2 {
        usage();
    }
    if args[1] == "fuzz-seeds" {
        let dir = args.get(2).cloned().unwrap_or_else(|| "/verif/fuzzing/seeds".into());
        println!("{} seed files written to {dir}", fuzz_api::write_seeds(&dir));
        core::cleanup_scratch();
        return;
    }
    let id = args[1].to_uppercase();
    let mut tier = match std::env::var("VERIF_TIER").as_deref() {
        Ok("thorough") => Tier::Thorough,
        _ => Tier::Quick,
    };
    let mut replay: Option<String> = None;
    let mut i = 2;
    while i < args.len() {
        match args[i].as_str() {
            "--tier" => {
                i += 1;
                tier = match args.get(i).map(|s| s.as_str()) {
                    Some("quick") => Tier::Quick,
                    Some("thorough") => Tier::Thorough,
                    _ => usage(),
                };
            }
            "--replay" => {
                i += 1;
                replay = args.get(i).cloned();
            }
            _ => usage(),
        }
        i += 1;
    }
    let seed: u64 = std::env::var("VERIF_SEED")
        .ok()
        .and_then(|s| s.parse::<i64>().ok())
        .map(|v| v as u64)
        .unwrap_or(0);
    core::install_panic_hook();
    isolate::enable_cap_from_env();
    if let Some(path) = replay {
        if let (Some((_, watchdog)), Err(_)) = (isolated(&id), std::env::var("VERIF_REPLAY_CHILD")) {
            // strict replay of a process-level property: in a child with the allocation cap on
            std::process::exit(isolate::replay_in_child(&id, &path, watchdog));
        }
        std::process::exit(replay_one(&id, &path));
    }
    let mut ctx = Ctx::new(&id, tier, seed);
    if ctx.child.is_none() {
        if let Some((campaign, watchdog)) = isolated(&id) {
            if id == "C23" {
                // every case starts up to 16 reader threads of its own
                ctx.workers = (ctx.workers / 4).max(2);
            }
            isolate::supervise(&mut ctx, campaign, watchdog, 2);
            std::process::exit(ctx.finish());
        }
    }
    match id.as_str() {
        "C01" => props_storage::c01(&mut ctx),
        "C02" => props_crash::c02(&mut ctx),
        "C03" => props_crash::c03(&mut ctx),
        "C32" => props_crash::c32(&mut ctx),
        "C31" => props_cluster::c31(&mut ctx),
        "C07" => props_damage::c07(&mut ctx),
        "C04" => props_storage::c04(&mut ctx),
        "C05" => props2::c05(&mut ctx),
        "C06" => props2::c06(&mut ctx),
        "C12" => props2::c12(&mut ctx),
        "C13" => props2::c13(&mut ctx),
        "C19" => props2::c19(&mut ctx),
        "C20" => props_ser::c20(&mut ctx),
        "C21" => props_ser::c21(&mut ctx),
        "C22" => props_ser::c22(&mut ctx),
        "C23" => props_conc::c23(&mut ctx),
        "C24" => props_server::c24(&mut ctx),
        "C25" => props_server::c25(&mut ctx),
        "C26" => props_server::c26(&mut ctx),
        "C08" => props_db::c08(&mut ctx),
        "C09" => props_db::c09(&mut ctx),
        "C10" => props_db::c10(&mut ctx),
        "C11" => props_db::c11(&mut ctx),
        "C14" => props_search::c14(&mut ctx),
        "C15" => props_search::c15(&mut ctx),
        "C16" => props_search::c16(&mut ctx),
        "C17" => props_search::c17(&mut ctx),
        "C18" => props_search::c18(&mut ctx),
        _ => {
            eprintln!("unknown property {id}");
            std::process::exit(2);
        }
    }
    std::process::exit(ctx.finish());
}

fn replay_one(id: &str, path: &str) -> i32 {
    // a raw libFuzzer artifact / corpus file (not one of the JSON replay files)?
    if matches!(id, "C04" | "C07" | "C20" | "C21") {
        if let Ok(bytes) = std::fs::read(path) {
            if serde_json::from_slice::<core::ReplayFile>(&bytes).is_err() {
                return match fuzz_api::replay_raw(id, &bytes) {
                    Ok(()) => {
                        println!("replay {path}: property held");
                        0
                    }
                    Err(f) => {
                        // the oracle of the fuzz target prefixes the property's own signature
                        let inner = f.sig.split("oracle: ").nth(1).map(|x| x.split(" | ").next().unwrap_or(x).to_string());
                        if std::env::var("VERIF_REPLAY_TOLERATE_KNOWN").is_ok() {
                            let known = core::KnownFindings::load().for_property(id);
                            if let Some(k) = known.iter().find(|k| Some(&k.signature) == inner.as_ref() || f.sig.contains(&k.signature) || f.detail.contains(&k.signature)) {
                                println!("KNOWN-FINDING: property={id} {}", k.text);
                                return 0;
                            }
                        }
                        println!("VIOLATION property={id} replay={path}");
                        println!("  signature: {}", f.sig);
                        println!("  detail: {}", core::truncate(&f.detail, 3000));
                        1
                    }
                };
            }
        }
    }
    match id {
        "C08" | "C09" | "C10" | "C11" => props_db::replay(path),
        "C01" => props_storage::c01_replay(path),
        "C02" => props_crash::c02_replay(path),
        "C03" => props_crash::c03_replay(path),
        "C32" => props_crash::c32_replay(path),
        "C31" => props_cluster::c31_replay(path),
        "C07" => props_damage::c07_replay(path),
        "C04" => props_storage::c04_replay(path),
        "C05" => props2::c05_replay(path),
        "C06" => props2::c06_replay(path),
        "C12" => props2::c12_replay(path),
        "C13" => props2::c13_replay(path),
        "C19" => props2::c19_replay(path),
        "C20" => props_ser::c20_replay(path),
        "C21" => props_ser::c21_replay(path),
        "C22" => props_ser::c22_replay(path),
        "C23" => props_conc::c23_replay(path),
        "C24" => props_server::c24_replay(path),
        "C25" => props_server::c25_replay(path),
        "C26" => props_server::c26_replay(path),
        "C14" => props_search::c14_replay(path),
        "C15" => props_search::c15_replay(path),
        "C16" => props_search::c16_replay(path),
        "C17" => props_search::c17_replay(path),
        "C18" => props_search::c18_replay(path),
        _ => {
            eprintln!("no replay for {id}");
            2
        }
    }
}
