//! C24 (authentication and permissions), C25 (batch atomicity + audit), C26 (file placement)
//! against a real server process.
use crate::core::*;
use crate::exec::*;
use crate::model::*;
use crate::query::*;
use crate::val::*;
use crate::vgen::{self, Profile};
use crate::vserver::*;
use agdb::QueryResult;
use proptest::prelude::*;
use serde::{Deserialize, Serialize};
use serde_json::{Value, json};
use std::collections::{BTreeMap, BTreeSet};
use std::sync::Mutex;
use std::sync::atomic::{AtomicU64, Ordering};

static SERVER: Mutex<Option<std::sync::Arc<Server>>> = Mutex::new(None);
static COUNTER: AtomicU64 = AtomicU64::new(0);
const PASSWORD: &str = "password123";

fn server() -> std::sync::Arc<Server> {
    let mut g = SERVER.lock().unwrap();
    if g.is_none() {
        *g = Some(std::sync::Arc::new(Server::start("server", None)));
    }
    g.as_ref().unwrap().clone()
}

fn stop_server() {
    let s = SERVER.lock().unwrap().take();
    drop(s);
}

fn uid() -> u64 {
    COUNTER.fetch_add(1, Ordering::Relaxed)
}

fn kind_name(k: u8) -> &'static str {
    ["memory", "mapped", "file"][k as usize % 3]
}

fn queries_json(qs: &[CQuery]) -> Value {
    Value::Array(qs.iter().map(|q| serde_json::to_value(to_query_type(q)).unwrap_or(Value::Null)).collect())
}

fn parse_results(r: &Resp) -> Result<Vec<QueryResult>, String> {
    serde_json::from_slice::<Vec<QueryResult>>(&r.body).map_err(|e| format!("cannot parse results: {e}: {}", truncate(&r.text(), 300)))
}

/// read-only executor over the exec endpoint
fn exec_read(s: &Server, token: &str, owner: &str, db: &str, q: &CQuery) -> Result<QueryResult, String> {
    let r = s.call("POST", &format!("/api/v1/db/{owner}/{db}/exec"), Some(token), Some(&queries_json(std::slice::from_ref(q))));
    if r.status != 200 {
        return Err(format!("status {} {}", r.status, truncate(&r.text(), 200)));
    }
    parse_results(&r)?.into_iter().next().ok_or_else(|| "empty result list".to_string())
}

fn remote_dump(s: &Server, token: &str, owner: &str, db: &str) -> Result<Dump, Fail> {
    dump_batched(&|qs: &[CQuery]| {
        let r = s.call("POST", &format!("/api/v1/db/{owner}/{db}/exec"), Some(token), Some(&queries_json(qs)));
        if r.status != 200 {
            return Err(format!("status {} {}", r.status, truncate(&r.text(), 200)));
        }
        parse_results(&r)
    })
}

// ---------------------------------------------------------------------------------------
// C25

#[derive(Clone, Debug, Serialize, Deserialize)]
pub enum BQ {
    Q(CQuery),
    /// select values of the ids of result `k` (":k" injection)
    SelectRef(u8),
    /// insert values on the ids of result `k`
    InsertValuesRef(u8, Vec<(Val, Val)>),
}

#[derive(Clone, Debug, Serialize, Deserialize)]
pub struct Batch {
    pub queries: Vec<BQ>,
    pub by_writer: bool,
    /// send to the read-only endpoint
    pub use_exec: bool,
}

#[derive(Clone, Debug, Serialize, Deserialize)]
pub struct BatchCase {
    pub kind: u8,
    pub batches: Vec<Batch>,
}

fn server_profile() -> Profile {
    let mut p = Profile::general();
    p.json_safe = true;
    p.wild_values = false;
    // index creation and removal at a weight where "remove an index, fail, fail again" occurs
    p.w_insert_index = 7;
    p.w_remove_index = 5;
    p.w_reads = 8;
    p.invalid_pct = 10;
    p
}

fn concrete(bq: &BQ, m: &RefDb) -> CQuery {
    match bq {
        BQ::Q(q) => m.resolve(q),
        BQ::SelectRef(k) => CQuery::SelectValues { ids: QIds::Ids(vec![QId::Alias(format!(":{k}"))]), keys: vec![] },
        BQ::InsertValuesRef(k, kvs) => CQuery::InsertValues { ids: QIds::Ids(vec![QId::Alias(format!(":{k}"))]), values: QVals::Single(kvs.clone()) },
    }
}

/// the server's result injection for id lists: ":k" is replaced by all ids of result k
fn inject(q: &CQuery, results: &[Vec<i64>]) -> Result<CQuery, String> {
    let fix = |ids: &QIds| -> Result<QIds, String> {
        match ids {
            QIds::Ids(v) => {
                let mut out = vec![];
                for i in v {
                    match i {
                        QId::Alias(a) if a.starts_with(':') && a[1..].parse::<usize>().is_ok() => {
                            let k: usize = a[1..].parse().unwrap();
                            let r = results.get(k).ok_or_else(|| format!("result index {k} out of bounds"))?;
                            out.extend(r.iter().map(|x| QId::Id(*x)));
                        }
                        other => out.push(other.clone()),
                    }
                }
                Ok(QIds::Ids(out))
            }
            other => Ok(other.clone()),
        }
    };
    Ok(match q {
        CQuery::SelectValues { ids, keys } => CQuery::SelectValues { ids: fix(ids)?, keys: keys.clone() },
        CQuery::InsertValues { ids, values } => CQuery::InsertValues { ids: fix(ids)?, values: values.clone() },
        other => other.clone(),
    })
}

fn c25_case(c: &BatchCase) -> CaseResult {
    let s = server();
    let n = uid();
    let (owner, writer, db) = (format!("own{n}"), format!("wri{n}"), format!("db{n}"));
    for u in [&owner, &writer] {
        let r = s.add_user(u, PASSWORD);
        if !r.ok() {
            return Err(Fail::new("harness: cannot add user", format!("{} {}", r.status, r.text())));
        }
    }
    let otok = s.login(&owner, PASSWORD).ok_or_else(|| Fail::new("harness: login failed", owner.clone()))?;
    let wtok = s.login(&writer, PASSWORD).ok_or_else(|| Fail::new("harness: login failed", writer.clone()))?;
    let r = s.call("POST", &format!("/api/v1/db/{owner}/{db}/add?db_type={}", kind_name(c.kind)), Some(&otok), None);
    if !r.ok() {
        return Err(Fail::new("harness: cannot add db", format!("{} {}", r.status, r.text())));
    }
    let r = s.call("PUT", &format!("/api/v1/db/{owner}/{db}/user/{writer}/add?db_role=write"), Some(&otok), None);
    if !r.ok() {
        return Err(Fail::new("harness: cannot add db user", format!("{} {}", r.status, r.text())));
    }
    let mut model = RefDb::default();
    let mut expected_audit: Vec<(String, Value)> = vec![];
    let mut ci = CaseInfo::default();
    let mut trace: Vec<String> = vec![];
    for (bi, b) in c.batches.iter().enumerate() {
        let (tok, user) = if b.by_writer { (&wtok, &writer) } else { (&otok, &owner) };
        let concrete_qs: Vec<CQuery> = {
            // selectors are resolved against the model state before the batch, as a client would
            b.queries.iter().map(|q| concrete(q, &model)).collect()
        };
        let endpoint = if b.use_exec { "exec" } else { "exec_mut" };
        let before = remote_dump(&s, &otok, &owner, &db)?;
        let resp = s.call("POST", &format!("/api/v1/db/{owner}/{db}/{endpoint}"), Some(tok), Some(&queries_json(&concrete_qs)));
        let actual: Result<Vec<QueryResult>, String> = if resp.status == 200 { parse_results(&resp) } else { Err(format!("status {} {}", resp.status, truncate(&resp.text(), 300))) };
        trace.push(format!("batch {bi} by {user} via {endpoint}: {concrete_qs:?} -> {}", match &actual { Ok(r) => format!("Ok({} results)", r.len()), Err(e) => format!("Err({e})") }));
        // model prediction
        let snapshot = model.clone();
        let mut predicted_fail: Option<String> = None;
        let mut result_ids: Vec<Vec<i64>> = vec![];
        let mut batch_audit: Vec<(String, Value)> = vec![];
        let mut mutations_before_failure = 0usize;
        let mut undetermined = false;
        let has_mut = concrete_qs.iter().any(|q| q.is_mut());
        if b.use_exec && has_mut {
            predicted_fail = Some("mutating query sent to the read-only endpoint".into());
        } else {
            for (i, q) in concrete_qs.iter().enumerate() {
                let injected = match inject(q, &result_ids) {
                    Ok(q) => q,
                    Err(e) => {
                        predicted_fail = Some(e);
                        break;
                    }
                };
                let act = actual.as_ref().ok().and_then(|r| r.get(i));
                let (pred, adopt_errors) = model.apply(&injected, act);
                match pred {
                    Pred::Err(reason) => {
                        predicted_fail = Some(format!("query {i}: {reason}"));
                        break;
                    }
                    Pred::Silent => {
                        // the documentation does not say whether this query succeeds
                        undetermined = true;
                        result_ids.push(act.map(|r| r.elements.iter().map(|e| e.id.0).collect()).unwrap_or_default())
                    }
                    Pred::Ok(exp) => {
                        if let (Some(a), Some(e)) = (act, adopt_errors.first()) {
                            let _ = a;
                            return Err(Fail::new(format!("batch: invalid new id ({})", strip_digits(e)), format!("{e}\n{}", trace.join("\n"))));
                        }
                        if let Some(a) = act {
                            compare_result(injected.kind(), &injected, &Pred::Ok(exp.clone()), &Ok(a.clone())).map_err(|mut f| {
                                f.sig = format!("batch result: {}", f.sig);
                                f.detail = format!("{}\n{}", f.detail, trace.join("\n"));
                                f
                            })?;
                        }
                        result_ids.push(exp.elements.iter().map(|e| e.id).collect());
                    }
                }
                if injected.is_mut() {
                    mutations_before_failure += 1;
                    batch_audit.push((user.clone(), serde_json::to_value(to_query_type(&injected)).unwrap_or(Value::Null)));
                }
            }
        }
        if undetermined && predicted_fail.is_none() && actual.is_err() {
            // a query whose outcome is undocumented failed: the batch must still be all-or-nothing
            predicted_fail = Some("undocumented outcome".into());
        }
        match (&predicted_fail, &actual) {
            (Some(reason), Ok(_)) => {
                return Err(Fail::new("batch accepted although one of its queries must fail", format!("{reason}\n{}", trace.join("\n"))));
            }
            (None, Err(e)) => {
                return Err(Fail::new("batch rejected although every query must succeed", format!("{e}\n{}", trace.join("\n"))));
            }
            (Some(_), Err(_)) => {
                model = snapshot;
                let after = remote_dump(&s, &otok, &owner, &db)?;
                if after.normalized() != before.normalized() {
                    return Err(Fail::new(
                        format!("failed batch left a visible change: {}", after.normalized().diff_section(&before.normalized())),
                        format!("{}\n{}", after.normalized().diff(&before.normalized()), trace.join("\n")),
                    ));
                }
                resync_order(&mut model, &after);
                ci.count("failing batches", 1);
                if mutations_before_failure >= 1 {
                    ci.nontrivial = true;
                    ci.label("failing batch with a successful mutating query before the failure");
                }
            }
            (None, Ok(r)) => {
                if r.len() != concrete_qs.len() {
                    return Err(Fail::new("batch returned the wrong number of results", format!("{} for {} queries\n{}", r.len(), concrete_qs.len(), trace.join("\n"))));
                }
                expected_audit.extend(batch_audit);
                let after = remote_dump(&s, &otok, &owner, &db)?;
                let m = dump_model(&model);
                if after != m {
                    return Err(Fail::new(format!("state after an applied batch differs from the model: {}", after.diff_section(&m)), format!("{}\n{}", after.diff(&m), trace.join("\n"))));
                }
                ci.count("applied batches", 1);
            }
        }
        // audit: exactly the mutating queries of the applied batches, in order, with the user
        let r = s.call("GET", &format!("/api/v1/db/{owner}/{db}/audit"), Some(&otok), None);
        if r.status != 200 {
            return Err(Fail::new("audit endpoint failed", format!("{} {}", r.status, r.text())));
        }
        let audit = r.json();
        let got: Vec<(String, Value)> = audit.as_array().cloned().unwrap_or_default().into_iter().map(|e| (e["username"].as_str().unwrap_or("").to_string(), e["query"].clone())).collect();
        if got != expected_audit {
            let what = if got.len() != expected_audit.len() {
                if got.len() > expected_audit.len() { "audit lists queries of a batch that was not applied (or a read)" } else { "audit misses applied mutating queries" }
            } else if got.iter().zip(&expected_audit).any(|(a, b)| a.0 != b.0) {
                "audit attributes a query to the wrong user"
            } else {
                "audit lists different queries"
            };
            return Err(Fail::new(format!("audit: {what}"), format!("expected {expected_audit:?}\n got {got:?}\n{}", trace.join("\n"))));
        }
        ci.evals += 1;
    }
    // clean up so that the server does not grow without bound
    let _ = s.call("DELETE", &format!("/api/v1/db/{owner}/{db}/delete"), Some(&otok), None);
    for u in [&owner, &writer] {
        let _ = s.call("DELETE", &format!("/api/v1/admin/user/{u}/delete"), Some(&s.admin_token), None);
    }
    ci.label(format!("db kind {}", kind_name(c.kind)));
    Ok(ci)
}

fn batch_case() -> impl Strategy<Value = BatchCase> {
    let p = server_profile();
    let bq = prop_oneof![
        10 => vgen::q_mut(&p).prop_map(BQ::Q),
        3 => vgen::q_read(&p).prop_map(BQ::Q),
        1 => (0u8..6).prop_map(BQ::SelectRef),
        1 => ((0u8..6), vgen::kv_list(&p, 2)).prop_map(|(k, kvs)| BQ::InsertValuesRef(k, kvs)),
    ];
    let batch = (prop::collection::vec(bq, 1..8), any::<bool>(), prop_oneof![9 => Just(false), 1 => Just(true)]).prop_map(|(queries, by_writer, use_exec)| Batch { queries, by_writer, use_exec });
    (0u8..3, prop::collection::vec(batch, 3..10), 0u8..4, any::<u16>(), 0usize..8).prop_map(|(kind, mut batches, episode, at, key)| {
        if episode == 0 {
            // an episode that only shows over several batches: an index exists, a failing batch
            // removes it before it fails, and the very next mutating batch fails as well
            let k = crate::val::key_pool()[key].clone();
            let fail = || BQ::Q(CQuery::InsertEdges { from: QIds::Ids(vec![QId::Missing(0, true)]), to: QIds::Ids(vec![QId::Id(1)]), ids: QIds::Ids(vec![]), values: QVals::Single(vec![]), each: false });
            let value = BQ::Q(CQuery::InsertValues { ids: QIds::Ids(vec![QId::Id(1), QId::Id(2)]), values: QVals::Single(vec![(k.clone(), Val::I64(7))]) });
            let ep = vec![
                Batch { queries: vec![value, BQ::Q(CQuery::InsertIndex(k.clone()))], by_writer: false, use_exec: false },
                Batch { queries: vec![BQ::Q(CQuery::RemoveIndex(k.clone())), fail()], by_writer: true, use_exec: false },
                Batch { queries: vec![BQ::Q(CQuery::InsertNodes { count: 1, values: QVals::Single(vec![]), aliases: vec![], ids: QIds::Ids(vec![]) }), fail()], by_writer: false, use_exec: false },
                Batch { queries: vec![BQ::Q(CQuery::SelectIndexes)], by_writer: false, use_exec: true },
            ];
            let p = crate::core::pick(at, batches.len() + 1);
            for (i, b) in ep.into_iter().enumerate() {
                batches.insert(p + i, b);
            }
        }
        // something to refer to
        batches.insert(
            0,
            Batch { queries: vec![BQ::Q(CQuery::InsertNodes { count: 3, values: QVals::Single(vec![]), aliases: vec![], ids: QIds::Ids(vec![]) })], by_writer: false, use_exec: false },
        );
        BatchCase { kind, batches }
    })
}

pub fn c25(ctx: &mut Ctx) {
    ctx.rule = "sequences of 4-10 batches (1-7 queries each, from the history grammar in QueryType form: reads, writes, queries failing at position k through missing ids / invalid references, result references ':n' pointing at earlier, later or out-of-range results, mutating queries sent to the read-only exec endpoint) submitted by the owner and by a write-role user to memory, mapped and file databases of a real server process. Oracle: the reference model is applied per batch; if any query of the batch is predicted to fail the response must be an error and the canonical dump read back through exec must equal the dump before (order-insensitive); otherwise every result must match and the dump must equal the model; after every batch the audit endpoint must list exactly the mutating queries (after result injection) of the applied batches, in order, with the submitting user. evaluations = batches. Non-trivial: a failing batch whose failure comes after >=1 successful mutating query. Distinct = hash of the case.".into();
    ctx.assumptions.push("values are restricted to those that survive JSON (no NaN / infinity)".into());
    let cases = ctx.tier.pick(130, 2500);
    replay_saved::<BatchCase, _>(ctx, "c25-batches", c25_case);
    run_campaign(ctx, CampaignCfg { name: "c25-batches", cases, max_shrink_iters: 300, max_restarts: 2 }, batch_case, c25_case);
    stop_server();
}

pub fn c25_replay(path: &str) -> i32 {
    let r = replay_file::<BatchCase, _>(path, c25_case);
    stop_server();
    r
}

// ---------------------------------------------------------------------------------------
// C26

#[derive(Clone, Debug, Serialize, Deserialize)]
pub enum NameOp {
    Add(u8),
    Copy,
    Rename,
    Backup,
    Restore,
    Clear(u8),
    Convert(u8),
    ExecMut,
    Delete,
    Remove,
    /// admin rename that transfers the database to the other user (same name or `other`)
    Transfer(bool),
}

#[derive(Clone, Debug, Serialize, Deserialize)]
pub struct NameCase {
    /// database names: pieces joined; the encoding on the wire is chosen per piece
    pub name: Vec<(u8, bool)>,
    pub other: Vec<(u8, bool)>,
    pub ops: Vec<NameOp>,
}

fn pieces() -> Vec<&'static str> {
    vec![
        "db", "x", "..", ".", "/", "\\", ".db", "audit", "backups", "x.bak", "x.log", "db.bak", "audit/x.log", "backups/x.bak", "%2F", "%5C", "..%2F", "%252F", " ", "\u{e9}", "a-very-long-name-",
        "\u{1}", "own", ".x",
    ]
}

/// the name as it travels in the URL and the name the server sees after one percent-decoding
fn wire_and_decoded(parts: &[(u8, bool)]) -> (String, String) {
    let ps = pieces();
    let mut wire = String::new();
    let mut decoded = String::new();
    for (i, enc) in parts {
        let p = ps[*i as usize % ps.len()];
        if *enc {
            // percent-encode every byte that needs it: the server sees the piece itself
            wire.push_str(&pct(p));
            decoded.push_str(p);
        } else {
            // sent raw where the URL grammar allows it; '%XX' pieces are decoded once by the server
            let raw_ok = p.bytes().all(|b| b.is_ascii_graphic() && b != b'/' && b != b'\\' && b != b'?' && b != b'#');
            if raw_ok {
                wire.push_str(p);
                decoded.push_str(&percent_decode(p));
            } else {
                wire.push_str(&pct(p));
                decoded.push_str(p);
            }
        }
    }
    if wire.is_empty() {
        wire.push_str("db");
        decoded.push_str("db");
    }
    (wire, decoded)
}

fn percent_decode(s: &str) -> String {
    let b = s.as_bytes();
    let mut out = vec![];
    let mut i = 0;
    while i < b.len() {
        if b[i] == b'%' && i + 2 < b.len() + 0 && i + 2 <= b.len() - 1 + 0 {
            if let Ok(v) = u8::from_str_radix(&s[i + 1..i + 3], 16) {
                out.push(v);
                i += 3;
                continue;
            }
        }
        out.push(b[i]);
        i += 1;
    }
    String::from_utf8_lossy(&out).to_string()
}

fn is_special(decoded: &str) -> bool {
    decoded.contains('/') || decoded.contains('\\') || decoded.contains("..") || decoded.starts_with('.') || ["audit", "backups"].iter().any(|r| decoded == *r || decoded.starts_with(&format!("{r}/"))) || decoded.ends_with(".bak") || decoded.ends_with(".log") || decoded == "."
}

/// files the server may touch for bookkeeping, relative to the scratch root
fn is_server_file(rel: &str, data_rel: &str) -> bool {
    let Some(r) = rel.strip_prefix(data_rel) else { return false };
    let r = r.trim_start_matches('/');
    !r.contains('/') && (r.starts_with("agdb_server") || r.starts_with(".agdb_server") || r.starts_with("cluster") || r.starts_with(".cluster") || r.is_empty())
}

fn c26_case(c: &NameCase) -> CaseResult {
    // one server per case: the file system around the data directory is part of the oracle
    let s = Server::start("c26", None);
    let n = uid();
    let (u1, u2) = (format!("own{n}"), format!("oth{n}"));
    for u in [&u1, &u2] {
        let r = s.add_user(u, PASSWORD);
        if !r.ok() {
            return Err(Fail::new("harness: cannot add user", format!("{} {}", r.status, r.text())));
        }
    }
    let t1 = s.login(&u1, PASSWORD).ok_or_else(|| Fail::new("harness: login failed", u1.clone()))?;
    let t2 = s.login(&u2, PASSWORD).ok_or_else(|| Fail::new("harness: login failed", u2.clone()))?;
    // a well-behaved database of the other user and of the same user, to collide with
    // "xx" is there because its name merely starts with the name of "x": an operation on "x"
    // must not touch it
    for (t, u, d) in [(&t2, &u2, "x"), (&t1, &u1, "x"), (&t1, &u1, "xx")] {
        let r = s.call("POST", &format!("/api/v1/db/{u}/{d}/add?db_type=mapped"), Some(t), None);
        if !r.ok() {
            return Err(Fail::new("harness: cannot add plain db", format!("{} {}", r.status, r.text())));
        }
        let _ = s.call("POST", &format!("/api/v1/db/{u}/{d}/exec_mut"), Some(t), Some(&queries_json(&[CQuery::InsertNodes { count: 2, values: QVals::Single(vec![]), aliases: vec![], ids: QIds::Ids(vec![]) }])));
        let _ = s.call("POST", &format!("/api/v1/db/{u}/{d}/backup"), Some(t), None);
    }
    let (wire, decoded) = wire_and_decoded(&c.name);
    let (owire, odecoded) = wire_and_decoded(&c.other);
    let data_rel = s.data_dir.strip_prefix(&s.root).unwrap().to_string_lossy().to_string();
    let own_prefix = format!("{data_rel}/{u1}/");
    let mut ci = CaseInfo::default();
    let mut any_2xx = false;
    let mut any_fs_change = false;
    let mut orphan_checks = 0u64;
    // databases detached with `remove`: the endpoint is documented to keep their files
    let mut kept_files: BTreeSet<String> = BTreeSet::new();
    let mut orphans: BTreeMap<String, String> = BTreeMap::new();
    let mut types_before: BTreeMap<(String, String), String> = BTreeMap::new();
    let mut leftovers = 0u64;
    let mut trace = vec![];
    let protected: Vec<String> = {
        // files of the plain databases that no other database may touch
        let m = manifest(&s.root);
        m.keys()
            .filter(|k| {
                k.starts_with(&format!("{data_rel}/{u2}/"))
                    || ["x", "xx"].iter().any(|d| *k == &format!("{data_rel}/{u1}/{d}") || *k == &format!("{data_rel}/{u1}/.{d}") || k.starts_with(&format!("{data_rel}/{u1}/backups/{d}.")) || k.starts_with(&format!("{data_rel}/{u1}/audit/{d}.")))
            })
            .cloned()
            .collect()
    };
    for op in &c.ops {
        let before = manifest(&s.root);
        let (method, path, body): (&str, String, Option<Value>) = match op {
            NameOp::Add(k) => ("POST", format!("/api/v1/db/{u1}/{wire}/add?db_type={}", kind_name(*k)), None),
            NameOp::Copy => ("POST", format!("/api/v1/db/{u1}/x/copy?new_db={}", pct(&odecoded)), None),
            NameOp::Rename => ("POST", format!("/api/v1/db/{u1}/{wire}/rename?new_db={}", pct(&odecoded)), None),
            NameOp::Backup => ("POST", format!("/api/v1/db/{u1}/{wire}/backup"), None),
            NameOp::Restore => ("POST", format!("/api/v1/db/{u1}/{wire}/restore"), None),
            NameOp::Clear(k) => ("POST", format!("/api/v1/db/{u1}/{wire}/clear?resource={}", ["all", "db", "audit", "backup"][*k as usize % 4]), None),
            NameOp::Convert(k) => ("POST", format!("/api/v1/db/{u1}/{wire}/convert?db_type={}", kind_name(*k)), None),
            NameOp::ExecMut => (
                "POST",
                format!("/api/v1/db/{u1}/{wire}/exec_mut"),
                Some(queries_json(&[CQuery::InsertNodes { count: 1, values: QVals::Single(vec![(Val::Str("k".into()), Val::I64(1))]), aliases: vec![], ids: QIds::Ids(vec![]) }])),
            ),
            NameOp::Delete => ("DELETE", format!("/api/v1/db/{u1}/{wire}/delete"), None),
            NameOp::Remove => ("DELETE", format!("/api/v1/db/{u1}/{wire}/remove"), None),
            NameOp::Transfer(keep_name) => ("POST", format!("/api/v1/admin/db/{u1}/{wire}/rename?new_owner={u2}&new_db={}", pct(if *keep_name { &decoded } else { &odecoded })), None),
        };
        let tok = if matches!(op, NameOp::Transfer(_)) { s.admin_token.clone() } else { t1.clone() };
        let r = s.call(method, &path, Some(&tok), body.as_ref());
        let after = manifest(&s.root);
        trace.push(format!("{method} {path} -> {}", r.status));
        if r.ok() {
            any_2xx = true;
        }
        ci.evals += 1;
        let mut changed: Vec<String> = vec![];
        for k in before.keys().chain(after.keys()).collect::<BTreeSet<_>>() {
            if before.get(k) != after.get(k) {
                changed.push(k.clone());
            }
        }
        for k in &changed {
            if is_server_file(k, &data_rel) || k == &format!("{data_rel}/") {
                continue;
            }
            any_fs_change = true;
            let name_for_sig = if matches!(op, NameOp::Copy | NameOp::Rename | NameOp::Transfer(false)) { &odecoded } else { &decoded };
            // a rename or transfer involves two names: the database's current one and the new
            // one; either can be the unvalidated name that causes the damage
            let class = match op {
                NameOp::Rename | NameOp::Transfer(false) => worse_class(name_class(&decoded), name_class(&odecoded)),
                _ => name_class(name_for_sig),
            };
            let transfer_target = matches!(op, NameOp::Transfer(_)) && (k.starts_with(&format!("{data_rel}/{u2}/")) && !protected.contains(k));
            if !k.starts_with(&own_prefix) && *k != format!("{data_rel}/{u1}/") && !transfer_target {
                let whose = if k.starts_with(&format!("{data_rel}/{u2}/")) { "another user's directory" } else if k.starts_with(&format!("{data_rel}/")) { "the data directory outside the owner's directory" } else { "a path outside the data directory" };
                return Err(Fail::new(
                    confinement_sig(class, &format!("database file outside the owner's directory: {whose}")),
                    format!("{k} changed by request\n{}\nname {decoded:?} other {odecoded:?}", trace.join("\n")),
                ));
            }
            // no other database's files (main, log, backup, audit) may be touched by a request on
            // a differently named database
            let own_file_of = |d: &str| *k == format!("{data_rel}/{u1}/{d}") || *k == format!("{data_rel}/{u1}/.{d}") || k.starts_with(&format!("{data_rel}/{u1}/backups/{d}.")) || k.starts_with(&format!("{data_rel}/{u1}/audit/{d}."));
            let acts_on_it = !matches!(op, NameOp::Copy) && ((decoded == "x" && own_file_of("x") && !own_file_of("xx")) || (decoded == "xx" && own_file_of("xx")));
            if protected.contains(k) && !acts_on_it {
                // copying x only reads it; any change of x's files by an operation on another name collides
                return Err(Fail::new(
                    confinement_sig(class, "two databases share a file"),
                    format!("{k} belongs to database 'x' and was changed by\n{}\nname {decoded:?} other {odecoded:?}", trace.join("\n")),
                ));
            }
        }
        // "No two databases share a file", over time (plain names only, where a file name
        // identifies its database): a file that a rename, conversion, ownership transfer or
        // deletion leaves behind under a user's directory belongs to no database any more; when a
        // later request creates a database of that name, the new database adopts the leftover
        // (backup, recovery log, audit log or data) of the old one. Leftovers alone are counted,
        // the adoption is the violation. Databases detached with `remove` keep their files, as
        // documented.
        if matches!(op, NameOp::Remove) && r.ok() {
            kept_files.insert(decoded.clone());
        }
        if name_class(&decoded) == "plain" && name_class(&odecoded) == "plain" && !decoded.contains('%') && !odecoded.contains('%') {
            orphan_checks += 1;
            let mut now_orphan: BTreeSet<String> = BTreeSet::new();
            let mut types_now: BTreeMap<(String, String), String> = BTreeMap::new();
            let mut owned: BTreeSet<(String, String)> = BTreeSet::new();
            for (user, token) in [(&u1, &t1), (&u2, &t2)] {
                let lr = s.call("GET", "/api/v1/db/list", Some(token), None);
                if lr.status != 200 {
                    return Err(Fail::new("harness: db list failed", format!("{} {}", lr.status, lr.text())));
                }
                // databases this user owns (the list also holds databases shared with the user)
                for d in lr.json().as_array().cloned().unwrap_or_default().iter().filter(|d| d["owner"].as_str() == Some(user.as_str())) {
                    if let Some(name) = d["db"].as_str() {
                        owned.insert((user.to_string(), name.to_string()));
                        types_now.insert((user.to_string(), name.to_string()), d["db_type"].as_str().unwrap_or("?").to_string());
                    }
                }
            }
            let file_owner = |k: &str| -> Option<(String, String, &'static str)> {
                for user in [&u1, &u2] {
                    let prefix = format!("{data_rel}/{user}/");
                    if let Some(rel) = k.strip_prefix(&prefix) {
                        if rel.is_empty() || rel.ends_with('/') {
                            return None;
                        }
                        let (d, class) = if let Some(x) = rel.strip_prefix("backups/") {
                            (x.strip_suffix(".bak").or_else(|| x.strip_suffix(".log")).map(|x| x.to_string()), "backup")
                        } else if let Some(x) = rel.strip_prefix("audit/") {
                            (x.strip_suffix(".log").map(|x| x.to_string()), "audit log")
                        } else if let Some(x) = rel.strip_prefix('.') {
                            (Some(x.to_string()), "recovery log")
                        } else {
                            (Some(rel.to_string()), "data file")
                        };
                        return d.map(|d| (user.to_string(), d, class));
                    }
                }
                None
            };
            for k in after.keys() {
                if let Some((user, d, class)) = file_owner(k) {
                    let has = owned.contains(&(user.clone(), d.clone())) || (user == u1 && kept_files.contains(&d));
                    if !has {
                        now_orphan.insert(k.clone());
                        if !orphans.contains_key(k) {
                            let kind = types_before.get(&(u1.clone(), decoded.clone())).cloned().unwrap_or_else(|| "?".into());
                            orphans.insert(k.clone(), format!("{} of a {kind} database ({class})", op_name(op)));
                            leftovers += 1;
                        }
                    } else if let Some(tag) = orphans.get(k) {
                        // an orphan has an owner again: a database of that name was created
                        if r.ok() {
                            // one root cause for memory databases (listed finding): their files
                            // are neither moved nor removed when the database is renamed or transferred
                            let sig = if tag.contains(" of a memory database") && (tag.starts_with("rename") || tag.starts_with("ownership transfer")) {
                                "a new database adopted a file left behind by a renamed or transferred memory database".to_string()
                            } else {
                                format!("a new database adopted a file left behind by {tag}")
                            };
                            return Err(Fail::new(
                                sig,
                                format!("{k} was left without a database and now belongs to {user}/{d}\n{}\nname {decoded:?} other {odecoded:?}", trace.join("\n")),
                            ));
                        }
                    }
                }
            }
            orphans.retain(|k, _| now_orphan.contains(k));
            types_before = types_now;
        }
        if !r.ok() && changed.iter().any(|k| !is_server_file(k, &data_rel) && *k != format!("{data_rel}/")) {
            let class = match op {
                NameOp::Rename | NameOp::Transfer(false) => worse_class(name_class(&decoded), name_class(&odecoded)),
                NameOp::Copy => name_class(&odecoded),
                _ => name_class(&decoded),
            };
            return Err(Fail::new(
                confinement_sig(class, "rejected request changed the file system"),
                format!("{changed:?}\n{}\nname {decoded:?} other {odecoded:?}", trace.join("\n")),
            ));
        }
    }
    ci.nontrivial = ((is_special(&decoded) || is_special(&odecoded)) && (any_2xx || any_fs_change)) || (orphan_checks > 0 && any_2xx);
    ci.count("orphan-file checks (plain names)", orphan_checks);
    ci.count("files left behind without a database (not judged until adopted)", leftovers);
    ci.label(format!("name class {}", name_class(&decoded)));
    if any_2xx {
        ci.label("a request was accepted");
    }
    drop(s);
    Ok(ci)
}

/// One root cause behind every C26 symptom for a non-plain name: database names are joined to
/// the owner's directory without validation. The signature names the class of the name (the
/// trigger); for a plain name the symptom itself is the signature.
fn confinement_sig(class: &str, symptom: &str) -> String {
    if class == "plain" {
        symptom.to_string()
    } else {
        format!("unvalidated database name ({class}): files outside the owner's directory, shared between databases, or left behind by a rejected request")
    }
}

fn op_name(op: &NameOp) -> &'static str {
    match op {
        NameOp::Add(_) => "add",
        NameOp::Copy => "copy",
        NameOp::Rename => "rename",
        NameOp::Backup => "backup",
        NameOp::Restore => "restore",
        NameOp::Clear(_) => "clear",
        NameOp::Convert(_) => "convert",
        NameOp::ExecMut => "exec_mut",
        NameOp::Delete => "delete",
        NameOp::Remove => "remove",
        NameOp::Transfer(_) => "ownership transfer",
    }
}

/// Of the two names a rename or transfer involves, the one whose class escapes furthest is named
/// in the signature (all classes are instances of one root cause: names are not validated).
fn worse_class(a: &'static str, b: &'static str) -> &'static str {
    let rank = |c: &str| ["plain", "backup/audit suffix", "reserved directory name", "leading dot", "separator", "dot-dot segment"].iter().position(|x| *x == c).unwrap_or(0);
    if rank(b) > rank(a) { b } else { a }
}

fn name_class(decoded: &str) -> &'static str {
    if decoded.contains("..") {
        "dot-dot segment"
    } else if decoded.contains('/') || decoded.contains('\\') {
        "separator"
    } else if decoded.starts_with('.') {
        "leading dot"
    } else if decoded == "audit" || decoded == "backups" {
        "reserved directory name"
    } else if decoded.ends_with(".bak") || decoded.ends_with(".log") {
        "backup/audit suffix"
    } else {
        "plain"
    }
}

fn name_case_with(plain_only: bool) -> impl Strategy<Value = NameCase> {
    // pass B: only pieces whose combinations stay in the class "plain" (the triggers of the
    // listed findings are excluded by construction)
    let plain: Vec<u8> = pieces().iter().enumerate().filter(|(_, p)| name_class(p) == "plain" && !p.contains('%') && !p.contains('.')).map(|(i, _)| i as u8).collect();
    let piece = move || {
        if plain_only {
            (proptest::sample::select(plain.clone()), any::<bool>()).boxed()
        } else {
            (0u8..24, any::<bool>()).boxed()
        }
    };
    let op = prop_oneof![
        5 => (0u8..3).prop_map(NameOp::Add),
        2 => Just(NameOp::Copy),
        2 => Just(NameOp::Rename),
        2 => Just(NameOp::Backup),
        1 => Just(NameOp::Restore),
        1 => (0u8..4).prop_map(NameOp::Clear),
        1 => (0u8..3).prop_map(NameOp::Convert),
        2 => Just(NameOp::ExecMut),
        1 => Just(NameOp::Delete),
        1 => Just(NameOp::Remove),
        2 => any::<bool>().prop_map(NameOp::Transfer),
    ];
    (prop::collection::vec(piece(), 1..4), prop::collection::vec(piece(), 1..4), prop::collection::vec(op, 2..7)).prop_map(move |(name, other, mut ops)| {
        // a fifth of the plain-name cases act on the database "x" itself, next to which a
        // database "xx" (whose name merely starts with "x") lives
        let mut name = name;
        if plain_only && ops.len() % 5 == 0 {
            name = vec![(1u8, false)];
        }
        ops.insert(0, NameOp::Add(1));
        if ops.len() % 2 == 0 {
            ops.insert(1, NameOp::Backup);
        }
        // a database created under the old name right after a rename, transfer, conversion or
        // deletion is what would adopt files left behind
        let mut with_followups = vec![];
        for (i, op) in ops.into_iter().enumerate() {
            let follow = matches!(op, NameOp::Rename | NameOp::Transfer(_) | NameOp::Delete | NameOp::Convert(_));
            with_followups.push(op);
            if follow {
                with_followups.push(NameOp::Add((i % 3) as u8));
            }
        }
        let ops = with_followups;
        NameCase { name, other, ops }
    })
}

fn name_case() -> impl Strategy<Value = NameCase> {
    name_case_with(false)
}

pub fn c26(ctx: &mut Ctx) {
    ctx.rule = "database names built from 1-3 pieces of a grammar of path-like and special strings (separators / and \\, their percent-encoded and double-encoded forms, '.' and '..' segments, leading dots incl. the recovery-log name '.x' of an existing database 'x', the reserved directory names audit and backups and paths inside them, .bak / .log suffixes, blanks, control and non-ASCII characters), each piece sent raw or percent-encoded, used with add, copy (as new_db), rename (as new_db), backup, restore, clear, convert, exec_mut, delete, remove and ownership transfer (admin rename to the other user) by one user while another user and the same user own a plain database 'x' with a backup. One fresh server per case, nested five levels below the scratch root. Oracle: a manifest (path, size, content hash) of the whole scratch root is taken before and after every request; every created, modified or deleted path (except the server's own bookkeeping files) must lie under data_dir/<owner>/; no file of database 'x' (main, recovery log, backup, audit) may be changed by a request on another name; a rejected request changes nothing; for plain names additionally, files that a request leaves behind under a user's directory without a database (after rename, conversion, ownership transfer through the admin rename, delete) are tracked, and a later request that creates a database of that name - which thereby adopts another database's backup, recovery log, audit log or data - is a violation ('no two databases share a file' over time); databases detached with remove keep their files, as documented. evaluations = requests. Non-trivial: the name contains a separator, dot segment, leading dot, reserved name or suffix and the server answered 2xx or changed the file system. Pass B repeats the campaign with names restricted to plain pieces (no separator, dot, reserved name or suffix), where every failure is a violation. Distinct = hash of the case.".into();
    let cases = ctx.tier.pick(90, 1500);
    replay_saved::<NameCase, _>(ctx, "c26-names", c26_case);
    run_campaign(ctx, CampaignCfg { name: "c26-names", cases, max_shrink_iters: 40, max_restarts: 2 }, name_case, c26_case);
    // pass B: plain names only - whatever fails here has another cause than the listed findings
    run_campaign(ctx, CampaignCfg { name: "c26-names-passB", cases: cases / 2, max_shrink_iters: 40, max_restarts: 1 }, || name_case_with(true), c26_case);
}

pub fn c26_replay(path: &str) -> i32 {
    replay_file::<NameCase, _>(path, c26_case)
}

// ---------------------------------------------------------------------------------------
// C24

#[derive(Clone, Copy, Debug, PartialEq, Eq, Serialize, Deserialize)]
pub enum Token {
    Valid,
    LoggedOut,
    Garbage,
    Missing,
    Quoted,
}

#[derive(Clone, Debug, Serialize, Deserialize)]
pub enum Req {
    /// role: 0 read, 1 write, 2 admin
    Grant { user: u8, role: u8 },
    Revoke { user: u8 },
    ExecRead,
    ExecMutWrite,
    ExecMutReadOnly,
    ExecWithMutation,
    Audit,
    Backup,
    Restore,
    Clear,
    Optimize,
    Convert(u8),
    Copy,
    Rename,
    Delete,
    Remove,
    UserList,
    AddDbAsOther,
    Logout { all: bool },
    Relogin,
    ChangePassword,
    AdminUserList,
    AdminDbList,
    AdminExecMut,
    AdminAddUser,
    AdminLogout { user: u8 },
}

#[derive(Clone, Debug, Serialize, Deserialize)]
pub struct Step24 {
    /// actor 0 = owner, 1..=3 = other users
    pub actor: u8,
    pub token: Token,
    pub req: Req,
}

#[derive(Clone, Debug, Serialize, Deserialize)]
pub struct PermCase {
    pub kind: u8,
    pub steps: Vec<Step24>,
}

#[derive(Clone, Debug)]
struct Actor {
    name: String,
    password: String,
    token: String,
    old_token: Option<String>,
    logged_in: bool,
}

#[derive(Clone, Debug, PartialEq)]
struct Observable {
    users: BTreeSet<String>,
    dbs: BTreeSet<(String, String, String)>,
    roles: BTreeMap<(String, String), BTreeMap<String, String>>,
    content: BTreeMap<(String, String), (u64, Vec<i64>)>,
}

fn observe(s: &Server, prefix: &str) -> Result<Observable, Fail> {
    let admin = Some(s.admin_token.as_str());
    let users = s.call("GET", "/api/v1/admin/user/list", admin, None);
    let dbs = s.call("GET", "/api/v1/admin/db/list", admin, None);
    if users.status != 200 || dbs.status != 200 {
        return Err(Fail::new("harness: admin listing failed", format!("{} {}", users.status, dbs.status)));
    }
    let mut o = Observable { users: BTreeSet::new(), dbs: BTreeSet::new(), roles: BTreeMap::new(), content: BTreeMap::new() };
    for u in users.json().as_array().cloned().unwrap_or_default() {
        let name = u["username"].as_str().unwrap_or("").to_string();
        if name.starts_with(prefix) {
            o.users.insert(name);
        }
    }
    for d in dbs.json().as_array().cloned().unwrap_or_default() {
        let (owner, db) = (d["owner"].as_str().unwrap_or("").to_string(), d["db"].as_str().unwrap_or("").to_string());
        if !owner.starts_with(prefix) {
            continue;
        }
        o.dbs.insert((owner.clone(), db.clone(), d["db_type"].as_str().unwrap_or("").to_string()));
        let r = s.call("GET", &format!("/api/v1/admin/db/{owner}/{db}/user/list"), admin, None);
        let mut roles = BTreeMap::new();
        for u in r.json().as_array().cloned().unwrap_or_default() {
            roles.insert(u["username"].as_str().unwrap_or("").to_string(), u["role"].as_str().unwrap_or("").to_string());
        }
        o.roles.insert((owner.clone(), db.clone()), roles);
        let q = queries_json(&[CQuery::SelectNodeCount, CQuery::Search(CSearch::elements())]);
        let r = s.call("POST", &format!("/api/v1/admin/db/{owner}/{db}/exec"), admin, Some(&q));
        if let Ok(res) = parse_results(&r) {
            o.content.insert((owner, db), (res[0].result, res[1].elements.iter().map(|e| e.id.0).collect()));
        }
    }
    Ok(o)
}

fn c24_case(c: &PermCase) -> CaseResult {
    let s = server();
    let n = uid();
    let prefix = format!("p{n}u");
    let mut actors: Vec<Actor> = vec![];
    for i in 0..4 {
        let name = format!("{prefix}{i}");
        let r = s.add_user(&name, PASSWORD);
        if !r.ok() {
            return Err(Fail::new("harness: cannot add user", format!("{} {}", r.status, r.text())));
        }
        let token = s.login(&name, PASSWORD).ok_or_else(|| Fail::new("harness: login failed", name.clone()))?;
        actors.push(Actor { name, password: PASSWORD.into(), token, old_token: None, logged_in: true });
    }
    let owner = actors[0].name.clone();
    let mut db = "main".to_string();
    let mut db_exists = true;
    let r = s.call("POST", &format!("/api/v1/db/{owner}/{db}/add?db_type={}", kind_name(c.kind)), Some(&actors[0].token), None);
    if !r.ok() {
        return Err(Fail::new("harness: cannot add db", format!("{} {}", r.status, r.text())));
    }
    let _ = s.call("POST", &format!("/api/v1/db/{owner}/{db}/exec_mut"), Some(&actors[0].token), Some(&queries_json(&[CQuery::InsertNodes { count: 2, values: QVals::Single(vec![]), aliases: vec![], ids: QIds::Ids(vec![]) }])));
    let _ = s.call("POST", &format!("/api/v1/db/{owner}/{db}/backup"), Some(&actors[0].token), None);
    // model: role of each actor on the db: None, "read", "write", "admin"
    let mut roles: Vec<Option<u8>> = vec![Some(2), None, None, None];
    let mut ci = CaseInfo::default();
    let mut trace: Vec<String> = vec![];
    let mut rejected_lacking_role = false;
    let mut revoked_or_logged_out: BTreeSet<usize> = BTreeSet::new();
    let mut used_after_revocation = false;
    let mut copies = 0u32;
    let write_q = || queries_json(&[CQuery::InsertNodes { count: 1, values: QVals::Single(vec![]), aliases: vec![], ids: QIds::Ids(vec![]) }]);
    let read_q = || queries_json(&[CQuery::SelectNodeCount]);
    for (si, st) in c.steps.iter().enumerate() {
        let a = st.actor as usize % actors.len();
        let actor = actors[a].clone();
        let garbage = "not-a-token-0000-0000".to_string();
        let quoted = format!("\"{}\"", actor.token);
        let (tok, token_valid): (Option<&str>, bool) = match st.token {
            Token::Valid => (Some(actor.token.as_str()), actor.logged_in),
            Token::LoggedOut => match &actor.old_token {
                Some(t) => (Some(t.as_str()), false),
                None => (Some(actor.token.as_str()), actor.logged_in),
            },
            Token::Garbage => (Some(garbage.as_str()), false),
            Token::Missing => (None, false),
            // the server strips surrounding double quotes from bearer tokens on purpose
            // (utilities::unquote): a quoted valid token is the valid token
            Token::Quoted => (Some(quoted.as_str()), actor.logged_in),
        };
        let role = roles[a];
        let is_owner = a == 0;
        let base = format!("/api/v1/db/{owner}/{db}");
        // (method, path, body, documented permission holds?, effect)
        let at_least = |r: u8| role.map(|x| x >= r).unwrap_or(false);
        let mut effect: Option<Box<dyn FnOnce(&mut Vec<Option<u8>>, &mut String, &mut bool)>> = None;
        let (method, path, body, permitted, silent): (&str, String, Option<Value>, bool, bool) = match &st.req {
            Req::Grant { user, role: r } => {
                let u = *user as usize % actors.len();
                let r = *r % 3;
                let target = actors[u].name.clone();
                if u != 0 {
                    effect = Some(Box::new(move |roles, _, _| roles[u] = Some(r)));
                }
                ("PUT", format!("{base}/user/{target}/add?db_role={}", ["read", "write", "admin"][r as usize]), None, db_exists && at_least(2) && u != 0, false)
            }
            Req::Revoke { user } => {
                let u = *user as usize % actors.len();
                let target = actors[u].name.clone();
                let self_removal = u == a && !at_least(2);
                if u != 0 {
                    effect = Some(Box::new(move |roles, _, _| roles[u] = None));
                }
                // a user removing their own role is not in the documented table; not decided
                ("DELETE", format!("{base}/user/{target}/remove"), None, db_exists && at_least(2) && u != 0 && role.is_some(), self_removal)
            }
            Req::ExecRead => ("POST", format!("{base}/exec"), Some(read_q()), db_exists && at_least(0), false),
            Req::ExecMutWrite => ("POST", format!("{base}/exec_mut"), Some(write_q()), db_exists && at_least(1), false),
            Req::ExecMutReadOnly => ("POST", format!("{base}/exec_mut"), Some(read_q()), db_exists && at_least(1), false),
            Req::ExecWithMutation => ("POST", format!("{base}/exec"), Some(write_q()), false, false),
            Req::Audit => ("GET", format!("{base}/audit"), None, db_exists && at_least(0), false),
            Req::Backup => ("POST", format!("{base}/backup"), None, db_exists && at_least(2), false),
            Req::Restore => ("POST", format!("{base}/restore"), None, db_exists && at_least(2), false),
            Req::Clear => ("POST", format!("{base}/clear?resource=audit"), None, db_exists && at_least(2), false),
            Req::Optimize => ("POST", format!("{base}/optimize"), None, db_exists && at_least(1), false),
            Req::Convert(k) => ("POST", format!("{base}/convert?db_type={}", kind_name(*k)), None, db_exists && at_least(2), false),
            Req::Copy => {
                copies += 1;
                ("POST", format!("{base}/copy?new_db=copy{copies}x{si}"), None, db_exists && at_least(0), false)
            }
            Req::Rename => {
                let new = format!("ren{si}");
                let n2 = new.clone();
                effect = Some(Box::new(move |_, db, _| *db = n2));
                ("POST", format!("{base}/rename?new_db={new}"), None, db_exists && is_owner, false)
            }
            Req::Delete => {
                effect = Some(Box::new(|roles, _, exists| {
                    *exists = false;
                    for r in roles.iter_mut() {
                        *r = None;
                    }
                }));
                ("DELETE", format!("{base}/delete"), None, db_exists && is_owner, false)
            }
            Req::Remove => {
                effect = Some(Box::new(|roles, _, exists| {
                    *exists = false;
                    for r in roles.iter_mut() {
                        *r = None;
                    }
                }));
                ("DELETE", format!("{base}/remove"), None, db_exists && is_owner, false)
            }
            Req::UserList => ("GET", format!("{base}/user/list"), None, db_exists && at_least(0), false),
            Req::AddDbAsOther => {
                // a user can only add databases under their own name
                let other = actors[(a + 1) % actors.len()].name.clone();
                ("POST", format!("/api/v1/db/{other}/sneaky{si}/add?db_type=memory"), None, false, false)
            }
            Req::Logout { all } => ("POST", format!("/api/v1/user/logout{}", if *all { "?session=all" } else { "" }), None, true, false),
            Req::Relogin => ("POST", "/api/v1/user/login".to_string(), Some(json!({"username": actor.name, "password": actor.password})), true, true),
            Req::ChangePassword => ("PUT", "/api/v1/user/change_password".to_string(), Some(json!({"password": actor.password, "new_password": format!("{}x", actor.password)})), true, false),
            Req::AdminUserList => ("GET", "/api/v1/admin/user/list".to_string(), None, false, false),
            Req::AdminDbList => ("GET", "/api/v1/admin/db/list".to_string(), None, false, false),
            Req::AdminExecMut => ("POST", format!("/api/v1/admin/db/{owner}/{db}/exec_mut"), Some(write_q()), false, false),
            Req::AdminAddUser => ("POST", format!("/api/v1/admin/user/{prefix}extra{si}/add"), Some(json!({"password": PASSWORD})), false, false),
            Req::AdminLogout { user } => ("POST", format!("/api/v1/admin/user/{}/logout", actors[*user as usize % actors.len()].name), None, false, false),
        };
        let is_login = matches!(st.req, Req::Relogin);
        let allowed = if is_login { true } else { token_valid && permitted };
        let before = if allowed || silent { None } else { Some(observe(&s, &prefix)?) };
        let resp = s.call(method, &path, if is_login { None } else { tok }, body.as_ref());
        trace.push(format!("step {si}: {} ({:?} token, role {role:?}) {method} {path} -> {} [{}]", actor.name, st.token, resp.status, if allowed { "allowed" } else { "must be rejected" }));
        ci.evals += 1;
        if revoked_or_logged_out.contains(&a) && !is_login {
            used_after_revocation = true;
        }
        if silent && !is_login {
            // undocumented corner: resynchronise the model from the server and go on
            if resp.ok() {
                if let Req::Revoke { .. } = st.req {
                    roles[a] = None;
                }
            }
            continue;
        }
        if is_login {
            if resp.status == 200 {
                if let Some(t) = resp.json().as_str() {
                    actors[a].old_token = if actors[a].logged_in { actors[a].old_token.clone() } else { actors[a].old_token.clone() };
                    actors[a].token = t.to_string();
                    actors[a].logged_in = true;
                }
            } else {
                return Err(Fail::new("login with correct credentials rejected", format!("{} {}\n{}", resp.status, resp.text(), trace.join("\n"))));
            }
            continue;
        }
        if !allowed {
            if resp.ok() {
                let why = if !token_valid {
                    match st.token {
                        Token::LoggedOut => "logged-out token accepted",
                        Token::Garbage => "garbage token accepted",
                        Token::Missing => "request without token accepted",
                        Token::Quoted => "quoted token of a logged-out session accepted",
                        Token::Valid => "token of a logged-out session accepted",
                    }
                } else {
                    "caller lacks the documented permission"
                };
                return Err(Fail::new(format!("request performed although it must be rejected: {why} ({})", req_name(&st.req)), trace.join("\n")));
            }
            if !(400..500).contains(&resp.status) {
                return Err(Fail::new(format!("rejected request answered with status class {}xx ({})", resp.status / 100, req_name(&st.req)), trace.join("\n")));
            }
            let after = observe(&s, &prefix)?;
            if Some(&after) != before.as_ref() {
                return Err(Fail::new(format!("rejected request had an effect ({})", req_name(&st.req)), format!("before {before:?}\nafter {after:?}\n{}", trace.join("\n"))));
            }
            if token_valid && role.map(|r| r < 2).unwrap_or(true) {
                rejected_lacking_role = true;
            }
        } else {
            if !resp.ok() {
                // The property is one-directional (an operation is performed ONLY for a permitted
                // caller): a permitted request that fails - for a functional reason, or even
                // with 401/403 - is not a violation of it. It is counted, and the sequence ends
                // here because the server may have changed state half-way.
                ci.count(format!("permitted request failed (not judged): {} -> {}", req_name(&st.req), resp.status), 1);
                break;
            }
            if let Some(e) = effect {
                e(&mut roles, &mut db, &mut db_exists);
            }
            match &st.req {
                Req::Logout { all } => {
                    actors[a].old_token = Some(actors[a].token.clone());
                    actors[a].logged_in = false;
                    let _ = all;
                    revoked_or_logged_out.insert(a);
                }
                Req::ChangePassword => actors[a].password = format!("{}x", actors[a].password),
                Req::Revoke { user } => {
                    revoked_or_logged_out.insert(*user as usize % actors.len());
                }
                _ => {}
            }
            // the modelled roles must be what the server reports
            if db_exists {
                let r = s.call("GET", &format!("/api/v1/admin/db/{owner}/{db}/user/list"), Some(&s.admin_token), None);
                let mut got: BTreeMap<String, String> = BTreeMap::new();
                for u in r.json().as_array().cloned().unwrap_or_default() {
                    got.insert(u["username"].as_str().unwrap_or("").to_string(), u["role"].as_str().unwrap_or("").to_string());
                }
                let mut want: BTreeMap<String, String> = BTreeMap::new();
                for (i, r) in roles.iter().enumerate() {
                    if let Some(r) = r {
                        want.insert(actors[i].name.clone(), ["read", "write", "admin"][*r as usize].to_string());
                    }
                }
                if got != want {
                    return Err(Fail::new(format!("roles after a permitted request differ from the model ({})", req_name(&st.req)), format!("server {got:?} model {want:?}\n{}", trace.join("\n"))));
                }
            }
        }
    }
    // clean up
    for a in &actors {
        let _ = s.call("DELETE", &format!("/api/v1/admin/user/{}/delete", a.name), Some(&s.admin_token), None);
    }
    ci.nontrivial = rejected_lacking_role && used_after_revocation;
    if rejected_lacking_role {
        ci.label("rejected request by an authenticated user lacking the role");
    }
    if used_after_revocation {
        ci.label("request after role removal or logout of the actor");
    }
    Ok(ci)
}

fn req_name(r: &Req) -> &'static str {
    match r {
        Req::Grant { .. } => "db user add",
        Req::Revoke { .. } => "db user remove",
        Req::ExecRead => "exec",
        Req::ExecMutWrite => "exec_mut with a mutating query",
        Req::ExecMutReadOnly => "exec_mut with read-only queries",
        Req::ExecWithMutation => "exec with a mutating query",
        Req::Audit => "audit",
        Req::Backup => "backup",
        Req::Restore => "restore",
        Req::Clear => "clear",
        Req::Optimize => "optimize",
        Req::Convert(_) => "convert",
        Req::Copy => "copy",
        Req::Rename => "rename",
        Req::Delete => "delete",
        Req::Remove => "remove",
        Req::UserList => "db user list",
        Req::AddDbAsOther => "add db under another user's name",
        Req::Logout { .. } => "logout",
        Req::Relogin => "login",
        Req::ChangePassword => "change password",
        Req::AdminUserList => "admin user list",
        Req::AdminDbList => "admin db list",
        Req::AdminExecMut => "admin exec_mut",
        Req::AdminAddUser => "admin user add",
        Req::AdminLogout { .. } => "admin logout",
    }
}

fn perm_case() -> impl Strategy<Value = PermCase> {
    let req = prop_oneof![
        6 => (0u8..4, 0u8..3).prop_map(|(user, role)| Req::Grant { user, role }),
        3 => (0u8..4).prop_map(|user| Req::Revoke { user }),
        4 => Just(Req::ExecRead),
        5 => Just(Req::ExecMutWrite),
        2 => Just(Req::ExecMutReadOnly),
        2 => Just(Req::ExecWithMutation),
        2 => Just(Req::Audit),
        2 => Just(Req::Backup),
        1 => Just(Req::Restore),
        1 => Just(Req::Clear),
        2 => Just(Req::Optimize),
        1 => (0u8..3).prop_map(Req::Convert),
        2 => Just(Req::Copy),
        1 => Just(Req::Rename),
        1 => Just(Req::Delete),
        1 => Just(Req::Remove),
        2 => Just(Req::UserList),
        1 => Just(Req::AddDbAsOther),
        2 => any::<bool>().prop_map(|all| Req::Logout { all }),
        2 => Just(Req::Relogin),
        1 => Just(Req::ChangePassword),
        1 => Just(Req::AdminUserList),
        1 => Just(Req::AdminDbList),
        1 => Just(Req::AdminExecMut),
        1 => Just(Req::AdminAddUser),
        1 => (0u8..4).prop_map(|user| Req::AdminLogout { user }),
    ];
    let token = prop_oneof![12 => Just(Token::Valid), 2 => Just(Token::LoggedOut), 1 => Just(Token::Garbage), 1 => Just(Token::Missing), 1 => Just(Token::Quoted)];
    let step = (0u8..4, token, req).prop_map(|(actor, token, req)| Step24 { actor, token, req });
    (0u8..3, prop::collection::vec(step, 5..40)).prop_map(|(kind, steps)| PermCase { kind, steps })
}

pub fn c24(ctx: &mut Ctx) {
    ctx.rule = "multi-user request sequences (5-40 requests) against a real server process: four users (owner + three others) on one database (memory / mapped / file); grants and removals of read/write/admin roles, exec and exec_mut with read-only and mutating batches, a mutating batch sent to exec, audit, backup, restore, clear, optimize, convert, copy, rename, delete, remove, user list, adding a database under another user's name, logout (current / all sessions), login, change password, and admin endpoints called with user tokens; each request is issued by a generated actor presenting a valid, logged-out, garbage, missing or quoted token (the server strips surrounding quotes on purpose, so a quoted valid token counts as valid). Oracle: a permission model written from the documented table predicts allowed / rejected; rejected => 4xx and the observable server state (users, databases, roles per database, node count and element ids per database, read through admin endpoints) is unchanged; allowed => the roles reported by the server equal the model after a success; a permitted request that fails is counted, not judged (the property only says when an operation must NOT be performed), and ends the sequence. A user removing their own role is not in the documented table and is not decided. evaluations = requests. Non-trivial: >=1 rejected request by an authenticated user lacking the role AND >=1 request by an actor after its role was removed or it logged out. Distinct = hash of the case.".into();
    let cases = ctx.tier.pick(160, 2500);
    replay_saved::<PermCase, _>(ctx, "c24-requests", c24_case);
    run_campaign(ctx, CampaignCfg { name: "c24-requests", cases, max_shrink_iters: 200, max_restarts: 2 }, perm_case, c24_case);
    if ctx.tier == Tier::Thorough {
        expiry_batch(ctx);
    }
    stop_server();
}

/// Token expiry (thorough only): the server's minimum expiry is 60 s and its clock is real.
fn expiry_batch(ctx: &mut Ctx) {
    let s = Server::start("c24-expiry", Some(60));
    let mut tokens = vec![];
    for i in 0..3 {
        let name = format!("exp{i}user");
        let _ = s.add_user(&name, PASSWORD);
        if let Some(t) = s.login(&name, PASSWORD) {
            let r = s.call("POST", &format!("/api/v1/db/{name}/d/add?db_type=memory"), Some(&t), None);
            tokens.push((name, t, r.ok()));
        }
    }
    std::thread::sleep(std::time::Duration::from_secs(62));
    for (name, t, _) in &tokens {
        let r = s.call("GET", "/api/v1/db/list", Some(t), None);
        ctx.evaluations += 1;
        if r.ok() {
            let f = Fail::new("expired token accepted", format!("user {name}: GET /db/list answered {} 62 s after login with token_expiry_seconds: 60", r.status));
            ctx.record_failure("c24-expiry", &json!({"user": name}), &f);
        }
        let r = s.call("POST", &format!("/api/v1/db/{name}/d/exec_mut"), Some(t), Some(&queries_json(&[CQuery::InsertNodes { count: 1, values: QVals::Single(vec![]), aliases: vec![], ids: QIds::Ids(vec![]) }])));
        ctx.evaluations += 1;
        if r.ok() {
            let f = Fail::new("expired token accepted", format!("user {name}: exec_mut answered {} after expiry", r.status));
            ctx.record_failure("c24-expiry", &json!({"user": name}), &f);
        }
    }
    ctx.label("expiry batch: expired tokens tried", tokens.len() as u64 * 2);
}

pub fn c24_replay(path: &str) -> i32 {
    let r = replay_file::<PermCase, _>(path, c24_case);
    stop_server();
    r
}
