//! Process isolation (DESIGN section 1): a campaign can be executed by child processes of the
//! same binary so that a process-level event in the code under test (abort, stack overflow,
//! enormous allocation request, endless loop) is attributed to the case in flight instead of
//! killing the check. The child runs the ordinary property function with its share of the
//! cases; the supervisor merges the partial results.
use crate::core::*;
use serde::{Deserialize, Serialize};
use serde_json::Value;
use std::alloc::{GlobalAlloc, Layout, System};
use std::collections::BTreeMap;
use std::sync::atomic::{AtomicBool, AtomicUsize, Ordering};
use std::time::{Duration, Instant};

pub const HUGE_ALLOC_EXIT: i32 = 77;
/// a child that abandoned a runaway helper thread finishes its case, persists its progress and
/// exits with this code; the supervisor starts a fresh child for the remaining cases, so that a
/// runaway thread never lives on into later cases (where a late panic, abort or allocation of
/// that thread would be attributed to the wrong case)
pub const RETIRE_EXIT: i32 = 78;
static RUNAWAY: AtomicUsize = AtomicUsize::new(0);

pub fn note_runaway() {
    RUNAWAY.fetch_add(1, Ordering::SeqCst);
}

pub fn retire_requested() -> bool {
    RUNAWAY.load(Ordering::SeqCst) > 0 && std::env::var("VERIF_CHILD").is_ok()
}
pub const DEFAULT_CAP: usize = 64 << 20;

static CAP: AtomicUsize = AtomicUsize::new(0);
static IN_HOOK: AtomicBool = AtomicBool::new(false);

/// Thin wrapper over the system allocator: a single request above the cap (enabled only in
/// child processes) writes a marker with a backtrace and `_exit`s with a reserved code.
pub struct Capped;

unsafe impl GlobalAlloc for Capped {
    unsafe fn alloc(&self, layout: Layout) -> *mut u8 {
        check(layout.size());
        unsafe { System.alloc(layout) }
    }
    unsafe fn dealloc(&self, ptr: *mut u8, layout: Layout) {
        unsafe { System.dealloc(ptr, layout) }
    }
    unsafe fn alloc_zeroed(&self, layout: Layout) -> *mut u8 {
        check(layout.size());
        unsafe { System.alloc_zeroed(layout) }
    }
    unsafe fn realloc(&self, ptr: *mut u8, layout: Layout, new_size: usize) -> *mut u8 {
        check(new_size);
        unsafe { System.realloc(ptr, layout, new_size) }
    }
}

#[inline]
fn check(size: usize) {
    let cap = CAP.load(Ordering::Relaxed);
    if cap != 0 && size > cap {
        if !IN_HOOK.swap(true, Ordering::SeqCst) {
            huge(size);
        }
        // another thread is already reporting an enormous request (its own allocations while
        // it captures the backtrace are small and pass above): this thread must not reach the
        // system allocator, whose failure would abort the process before the report is out
        if !HOOK_THREAD.with(|h| h.get()) {
            loop {
                std::thread::sleep(Duration::from_secs(3600));
            }
        }
    }
}

thread_local! {
    static HOOK_THREAD: std::cell::Cell<bool> = const { std::cell::Cell::new(false) };
}

#[cold]
fn huge(size: usize) -> ! {
    HOOK_THREAD.with(|h| h.set(true));
    // the cap is off while the report is produced (IN_HOOK)
    let bt = std::backtrace::Backtrace::force_capture().to_string();
    let site = first_repo_frame(&bt);
    let msg = format!("HUGE_ALLOC size={size} site={site}\n");
    unsafe {
        libc::write(2, msg.as_ptr() as *const libc::c_void, msg.len());
        libc::_exit(HUGE_ALLOC_EXIT);
    }
}

fn first_repo_frame(bt: &str) -> String {
    for line in bt.lines() {
        let l = line.trim();
        if let Some(pos) = l.find(": ") {
            let f = &l[pos + 2..];
            let in_repo = f.starts_with("agdb") || f.starts_with("<agdb") || (f.starts_with('<') && f.contains(" as agdb"));
            if in_repo && !f.contains("verif") {
                // the first frame inside the code under test; drop the symbol hash
                let f = match f.rfind("::h") {
                    Some(p) if f.len() - p == 19 => &f[..p],
                    _ => f,
                };
                return f.to_string();
            }
        }
    }
    "?".into()
}

pub fn enable_cap_from_env() {
    if let Ok(v) = std::env::var("VERIF_ALLOC_CAP") {
        if let Ok(n) = v.parse::<usize>() {
            CAP.store(n, Ordering::Relaxed);
        }
    }
}

#[derive(Clone, Debug)]
pub struct ChildInfo {
    pub index: usize,
    pub total: usize,
    pub restart: u32,
    pub out: String,
}

pub fn child_info() -> Option<ChildInfo> {
    let index = std::env::var("VERIF_CHILD").ok()?.parse().ok()?;
    Some(ChildInfo {
        index,
        total: std::env::var("VERIF_CHILDREN").ok()?.parse().ok()?,
        restart: std::env::var("VERIF_RESTART").ok().and_then(|s| s.parse().ok()).unwrap_or(0),
        out: std::env::var("VERIF_CHILD_OUT").ok()?,
    })
}

#[derive(Serialize, Deserialize, Default, Clone)]
pub struct Partial {
    /// cases of the running campaign finished so far (progress files only)
    #[serde(default)]
    pub done_cases: u32,
    pub evaluations: u64,
    pub nontrivial: Vec<u64>,
    pub labels: BTreeMap<String, u64>,
    pub samples: Vec<Value>,
    pub violations: Vec<(String, String)>,
    pub known_hits: BTreeMap<String, u64>,
    pub undecided: u64,
    pub undecided_samples: Vec<Value>,
    pub extra: serde_json::Map<String, Value>,
    pub replayed: u64,
    pub rule: String,
    pub level: String,
    pub assumptions: Vec<String>,
}

struct Child {
    index: usize,
    restart: u32,
    /// cases finished by earlier incarnations of this child
    done_before: u32,
    proc: std::process::Child,
    out: String,
    case_log: String,
    stderr_path: String,
    last_case_change: Instant,
    last_case_stamp: Option<std::time::SystemTime>,
}

fn spawn(id: &str, tier: Tier, seed: u64, index: usize, total: usize, restart: u32, dir: &std::path::Path, done_before: u32) -> Child {
    let out = dir.join(format!("partial-{index}-{restart}.json")).to_string_lossy().to_string();
    let case_log = dir.join(format!("case-{index}-{restart}.json")).to_string_lossy().to_string();
    let stderr_path = dir.join(format!("stderr-{index}-{restart}.txt")).to_string_lossy().to_string();
    let stderr = std::fs::File::create(&stderr_path).expect("stderr file");
    let exe = std::env::current_exe().expect("current exe");
    let proc = std::process::Command::new(exe)
        .arg(id)
        .arg("--tier")
        .arg(tier.name())
        .env("VERIF_SEED", seed.to_string())
        .env("VERIF_CHILD", index.to_string())
        .env("VERIF_CHILDREN", total.to_string())
        .env("VERIF_RESTART", restart.to_string())
        .env("VERIF_CHILD_OUT", &out)
        .env("VERIF_LOG_CASE", &case_log)
        .env("VERIF_ALLOC_CAP", DEFAULT_CAP.to_string())
        .env("VERIF_WORKERS", "1")
        .env("VERIF_CASES_DONE", done_before.to_string())
        .env("VERIF_STOP_FILE", dir.join("stop").to_string_lossy().to_string())
        .stdout(std::process::Stdio::null())
        .stderr(stderr)
        .spawn()
        .expect("spawn child");
    Child {
        index,
        restart,
        done_before,
        proc,
        out,
        case_log,
        stderr_path,
        last_case_change: Instant::now(),
        last_case_stamp: None,
    }
}

/// Supervisor: runs property `id` in child processes and merges their partial results into `ctx`.
/// `watchdog`: seconds one case may take before the child is killed and the case counted as
/// undecided.
pub fn supervise(ctx: &mut Ctx, campaign: &str, watchdog: u64, max_restarts: u32) {
    let dir = fresh_dir("children");
    let total = ctx.workers.max(1);
    let mut running: Vec<Child> = (0..total).map(|i| spawn(&ctx.id, ctx.tier, ctx.seed, i, total, 0, &dir, 0)).collect();
    let mut respawns = 0u32;
    let mut retired = 0u32;
    // a child that dies is replaced by one that continues with the remaining cases of its share;
    // the budget only guards against a child that cannot make progress at all
    let max_respawns = max_restarts.max(1) * 400 * total as u32;
    while !running.is_empty() {
        std::thread::sleep(Duration::from_millis(20));
        let mut next = vec![];
        for mut c in running.drain(..) {
            // watchdog on the case in flight
            let stamp = std::fs::metadata(&c.case_log).and_then(|m| m.modified()).ok();
            if stamp != c.last_case_stamp {
                c.last_case_stamp = stamp;
                c.last_case_change = Instant::now();
            }
            match c.proc.try_wait() {
                Ok(None) => {
                    if c.last_case_change.elapsed() > Duration::from_secs(watchdog) {
                        let _ = c.proc.kill();
                        let _ = c.proc.wait();
                        let base = std::env::var("VERIF_SCRATCH").unwrap_or_else(|_| "/tmp".into());
                        let _ = std::fs::remove_dir_all(std::path::Path::new(&base).join(format!("verif-{}", c.proc.id())));
                        let case: Value = std::fs::read_to_string(&c.case_log).ok().and_then(|s| serde_json::from_str(&s).ok()).unwrap_or(Value::Null);
                        ctx.undecided += 1;
                        if ctx.undecided_samples.len() < 3 {
                            let path = save_replay(&ctx.id, &format!("{campaign}-undecided"), &case, &Fail::new("undecided: case exceeded the per-case watchdog", format!("killed after {watchdog} s")));
                            ctx.undecided_samples.push(serde_json::json!({"replay": path}));
                        }
                        let done = merge_partial(ctx, &c.out) + 1;
                        if respawns < max_respawns {
                            respawns += 1;
                            next.push(spawn(&ctx.id, ctx.tier, ctx.seed, c.index, total, c.restart + 1, &dir, c.done_before + done));
                        }
                    } else {
                        next.push(c);
                    }
                }
                Ok(Some(status)) => {
                    let done = merge_partial(ctx, &c.out) + 1;
                    // scratch space of a child that died is removed by the supervisor
                    let base = std::env::var("VERIF_SCRATCH").unwrap_or_else(|_| "/tmp".into());
                    let _ = std::fs::remove_dir_all(std::path::Path::new(&base).join(format!("verif-{}", c.proc.id())));
                    let ok = status.success();
                    if !ok {
                        use std::os::unix::process::ExitStatusExt;
                        let stderr = std::fs::read_to_string(&c.stderr_path).unwrap_or_default();
                        let case: Value = std::fs::read_to_string(&c.case_log).ok().and_then(|s| serde_json::from_str(&s).ok()).unwrap_or(Value::Null);
                        let code = status.code();
                        if code == Some(RETIRE_EXIT) {
                            // not a failure: the child retired after a case that left a runaway thread
                            retired += 1;
                            next.push(spawn(&ctx.id, ctx.tier, ctx.seed, c.index, total, c.restart + 1, &dir, c.done_before + done - 1));
                            continue;
                        }
                        if code == Some(2) {
                            eprintln!("HARNESS: child {} reported a machinery failure:\n{}", c.index, truncate(&stderr, 2000));
                            ctx.extra.insert("child_machinery_failure".into(), Value::Bool(true));
                            continue;
                        }
                        let fail = if code == Some(HUGE_ALLOC_EXIT) {
                            let line = stderr.lines().find(|l| l.starts_with("HUGE_ALLOC")).unwrap_or("HUGE_ALLOC");
                            let site = line.split("site=").nth(1).unwrap_or("?").trim().to_string();
                            Fail::new(format!("enormous allocation request in {site}"), line.to_string())
                        } else if let Some(sig) = status.signal() {
                            let what = match sig {
                                6 => "abort",
                                11 => "segmentation fault (stack overflow?)",
                                9 => "killed",
                                _ => "signal",
                            };
                            Fail::new(format!("process died: {what}"), format!("signal {sig}; stderr tail: {}", truncate(&tail_of(&stderr, 1500), 1600)))
                        } else {
                            Fail::new(format!("process exited with code {code:?}"), truncate(&tail_of(&stderr, 1500), 1600))
                        };
                        let fail = if ctx.id == "C32" {
                            // one root cause behind every C32 symptom, see props_crash.rs
                            Fail::new("failed write: process-level failure afterwards (storage transaction left open)", format!("{}\n{}", fail.sig, fail.detail))
                        } else {
                            fail
                        };
                        ctx.evaluations += 1;
                        let known = ctx.record_failure(campaign, &case, &fail);
                        // a listed process-level finding: the campaign continues behind it; an
                        // unlisted one is a counterexample and ends the search everywhere
                        let stop_file = dir.join("stop");
                        if !known {
                            let _ = std::fs::write(&stop_file, b"stop");
                        }
                        if respawns < max_respawns && !stop_file.exists() {
                            respawns += 1;
                            next.push(spawn(&ctx.id, ctx.tier, ctx.seed, c.index, total, c.restart + 1, &dir, c.done_before + done));
                        }
                    }
                }
                Err(e) => {
                    eprintln!("HARNESS: cannot wait for child: {e}");
                }
            }
        }
        running = next;
    }
    ctx.extra.insert("isolated_children".into(), serde_json::json!(total));
    ctx.extra.insert("child_respawns".into(), serde_json::json!(respawns));
    ctx.extra.insert("children_retired_after_runaway_thread".into(), serde_json::json!(retired));
    let _ = std::fs::remove_dir_all(&dir);
}

fn tail_of(s: &str, n: usize) -> String {
    if s.len() <= n {
        s.to_string()
    } else {
        let mut start = s.len() - n;
        while !s.is_char_boundary(start) {
            start += 1;
        }
        s[start..].to_string()
    }
}

/// Merges the final partial result of a child, or its last progress file if it died before
/// writing one. Returns the number of campaign cases the child finished (progress files only).
fn merge_partial(ctx: &mut Ctx, path: &str) -> u32 {
    let read = |p: &str| -> Option<Partial> { std::fs::read_to_string(p).ok().and_then(|s| serde_json::from_str(&s).ok()) };
    let p: Partial = match read(path).or_else(|| read(&format!("{path}.progress"))) {
        Some(p) => p,
        None => return 0,
    };
    let done_cases = p.done_cases;
    ctx.evaluations += p.evaluations;
    ctx.nontrivial.extend(p.nontrivial);
    for (k, v) in p.labels {
        *ctx.labels.entry(k).or_default() += v;
    }
    for s in p.samples {
        if ctx.samples.len() < 8 {
            ctx.samples.push(s);
        }
    }
    for (sig, path) in p.violations {
        if !ctx.violations.iter().any(|(s, _)| *s == sig) {
            println!("VIOLATION property={} replay={}", ctx.id, path);
            println!("  signature: {sig}");
        }
        ctx.violations.push((sig, path));
    }
    for (k, v) in p.known_hits {
        if !ctx.known_hits.contains_key(&k) {
            if let Some(e) = ctx.known.iter().find(|e| e.signature == k) {
                println!("KNOWN-FINDING: property={} {}", ctx.id, e.text);
            }
        }
        *ctx.known_hits.entry(k).or_default() += v;
    }
    ctx.undecided += p.undecided;
    ctx.undecided_samples.extend(p.undecided_samples);
    for (k, v) in p.extra {
        ctx.extra.entry(k).or_insert(v);
    }
    ctx.replayed += p.replayed;
    if ctx.rule.is_empty() {
        ctx.rule = p.rule;
    }
    if !p.level.is_empty() {
        ctx.level = p.level;
    }
    if ctx.assumptions.is_empty() {
        ctx.assumptions = p.assumptions;
    }
    done_cases
}

pub fn write_partial(ctx: &Ctx, out: &str) {
    let p = snapshot(ctx);
    let tmp = format!("{out}.tmp");
    let _ = std::fs::write(&tmp, serde_json::to_string(&p).unwrap_or_default());
    let _ = std::fs::rename(&tmp, out);
}

pub fn snapshot(ctx: &Ctx) -> Partial {
    Partial {
        done_cases: 0,
        evaluations: ctx.evaluations,
        nontrivial: ctx.nontrivial.iter().cloned().collect(),
        labels: ctx.labels.clone(),
        samples: ctx.samples.clone(),
        violations: ctx.violations.clone(),
        known_hits: ctx.known_hits.clone(),
        undecided: ctx.undecided,
        undecided_samples: ctx.undecided_samples.clone(),
        extra: ctx.extra.clone(),
        replayed: ctx.replayed,
        rule: ctx.rule.clone(),
        level: ctx.level.clone(),
        assumptions: ctx.assumptions.clone(),
    }
}

/// `--replay` for the isolated properties: the saved case runs in a child process with the
/// allocation cap enabled, so that an abort, a stack overflow or an enormous allocation request
/// is reported as the violation it is (exit 1) instead of taking the replay down or passing
/// unnoticed. A case that exceeds the watchdog is undecided (exit 0 with a note).
pub fn replay_in_child(id: &str, path: &str, watchdog: u64) -> i32 {
    let exe = std::env::current_exe().expect("current exe");
    let dir = fresh_dir("replay-child");
    let stderr_path = dir.join("stderr.txt");
    let stderr = std::fs::File::create(&stderr_path).expect("stderr file");
    let mut proc = std::process::Command::new(exe)
        .arg(id)
        .arg("--replay")
        .arg(path)
        .env("VERIF_REPLAY_CHILD", "1")
        .env("VERIF_ALLOC_CAP", DEFAULT_CAP.to_string())
        .stderr(stderr)
        .spawn()
        .expect("spawn replay child");
    let start = Instant::now();
    let status = loop {
        match proc.try_wait() {
            Ok(Some(s)) => break Some(s),
            Ok(None) => {
                if start.elapsed() > Duration::from_secs(watchdog.max(10)) {
                    let _ = proc.kill();
                    let _ = proc.wait();
                    break None;
                }
                std::thread::sleep(Duration::from_millis(20));
            }
            Err(_) => break None,
        }
    };
    let stderr = std::fs::read_to_string(&stderr_path).unwrap_or_default();
    let base = std::env::var("VERIF_SCRATCH").unwrap_or_else(|_| "/tmp".into());
    let _ = std::fs::remove_dir_all(std::path::Path::new(&base).join(format!("verif-{}", proc.id())));
    cleanup_scratch();
    use std::os::unix::process::ExitStatusExt;
    let violation = |sig: String, detail: String| -> i32 {
        if std::env::var("VERIF_REPLAY_TOLERATE_KNOWN").is_ok() {
            if let Some(k) = KnownFindings::load().for_property(id).iter().find(|k| k.signature == sig) {
                println!("KNOWN-FINDING: property={id} {}", k.text);
                return 0;
            }
        }
        println!("VIOLATION property={id} replay={path}");
        println!("  signature: {sig}");
        println!("  detail: {}", truncate(&detail, 3000));
        1
    };
    match status {
        None => {
            println!("replay {path}: undecided (no answer within the per-case watchdog)");
            0
        }
        Some(s) if s.code() == Some(0) || s.code() == Some(1) => s.code().unwrap(),
        Some(s) if s.code() == Some(HUGE_ALLOC_EXIT) => {
            let line = stderr.lines().find(|l| l.starts_with("HUGE_ALLOC")).unwrap_or("HUGE_ALLOC").to_string();
            let site = line.split("site=").nth(1).unwrap_or("?").trim().to_string();
            violation(format!("enormous allocation request in {site}"), line)
        }
        Some(s) if s.signal().is_some() => violation(format!("process died: signal {}", s.signal().unwrap()), tail_of(&stderr, 1500)),
        Some(s) => {
            eprintln!("HARNESS: replay child exited with {:?}: {}", s.code(), tail_of(&stderr, 800));
            2
        }
    }
}
