//! Concrete, serialisable mirror of the agdb query types. Ids may be *selectors* that are
//! resolved against the reference model right before execution (DESIGN 2.2), which keeps
//! every generated history shrinkable and state-aware.
use crate::val::Val;
use agdb::{
    Comparison, CountComparison, DbError, DbId, DbImpl, DbKeyOrder, DbKeyValue, InsertAliasesQuery,
    InsertEdgesQuery, InsertIndexQuery, InsertNodesQuery, InsertValuesQuery, KeyValueComparison,
    QueryCondition, QueryConditionData, QueryConditionLogic, QueryConditionModifier, QueryId,
    QueryIds, QueryResult, QueryValues, RemoveAliasesQuery, RemoveIndexQuery, RemoveQuery,
    RemoveValuesQuery, SearchQuery, SearchQueryAlgorithm, SelectAliasesQuery,
    SelectAllAliasesQuery, SelectEdgeCountQuery, SelectIndexesQuery, SelectKeyCountQuery,
    SelectKeysQuery, SelectNodeCountQuery, SelectValuesQuery, StorageData, TransactionMut,
};
use serde::{Deserialize, Serialize};

#[derive(Clone, Debug, PartialEq, Eq, Hash, Serialize, Deserialize)]
pub enum QId {
    Id(i64),
    Alias(String),
    /// selectors, resolved against the model
    SelNode(u16),
    SelEdge(u16),
    SelElem(u16),
    SelAlias(u16),
    SelRemoved(u16),
    /// an id that never existed: max slot + 1 + k (sign chosen by the bool: true = node-like)
    Missing(u8, bool),
}

#[derive(Clone, Debug, PartialEq, Eq, Hash, Serialize, Deserialize)]
pub enum QIds {
    Ids(Vec<QId>),
    Search(Box<CSearch>),
}

#[derive(Clone, Debug, PartialEq, Eq, Hash, Serialize, Deserialize)]
pub enum QVals {
    Single(Vec<(Val, Val)>),
    Multi(Vec<Vec<(Val, Val)>>),
}

#[derive(Clone, Copy, Debug, PartialEq, Eq, Hash, Serialize, Deserialize)]
pub enum Algo {
    Bfs,
    Dfs,
    Index,
    Elements,
}

#[derive(Clone, Copy, Debug, PartialEq, Eq, Hash, Serialize, Deserialize)]
pub enum Logic {
    And,
    Or,
}

#[derive(Clone, Copy, Debug, PartialEq, Eq, Hash, Serialize, Deserialize)]
pub enum Modifier {
    None,
    Beyond,
    Not,
    NotBeyond,
}

#[derive(Clone, Copy, Debug, PartialEq, Eq, Hash, Serialize, Deserialize)]
pub enum CountCmp {
    Eq(u64),
    Gt(u64),
    Ge(u64),
    Lt(u64),
    Le(u64),
    Ne(u64),
}

#[derive(Clone, Debug, PartialEq, Eq, Hash, Serialize, Deserialize)]
pub enum Cmp {
    Eq(Val),
    Gt(Val),
    Ge(Val),
    Lt(Val),
    Le(Val),
    Ne(Val),
    Contains(Val),
    StartsWith(Val),
    EndsWith(Val),
}

#[derive(Clone, Debug, PartialEq, Eq, Hash, Serialize, Deserialize)]
pub enum CData {
    Distance(CountCmp),
    Edge,
    EdgeCount(CountCmp),
    EdgeCountFrom(CountCmp),
    EdgeCountTo(CountCmp),
    Ids(Vec<QId>),
    KeyValue(Val, Cmp),
    Keys(Vec<Val>),
    Node,
    Where(Vec<CCond>),
}

#[derive(Clone, Debug, PartialEq, Eq, Hash, Serialize, Deserialize)]
pub struct CCond {
    pub logic: Logic,
    pub modifier: Modifier,
    pub data: CData,
}

#[derive(Clone, Debug, PartialEq, Eq, Hash, Serialize, Deserialize)]
pub struct CSearch {
    pub algo: Algo,
    pub origin: QId,
    pub destination: QId,
    pub limit: u64,
    pub offset: u64,
    /// (ascending?, key)
    pub order_by: Vec<(bool, Val)>,
    pub conditions: Vec<CCond>,
}

impl CSearch {
    pub fn from(origin: QId) -> Self {
        CSearch {
            algo: Algo::Bfs,
            origin,
            destination: QId::Id(0),
            limit: 0,
            offset: 0,
            order_by: vec![],
            conditions: vec![],
        }
    }
    pub fn to(destination: QId) -> Self {
        CSearch {
            algo: Algo::Bfs,
            origin: QId::Id(0),
            destination,
            limit: 0,
            offset: 0,
            order_by: vec![],
            conditions: vec![],
        }
    }
    pub fn elements() -> Self {
        CSearch {
            algo: Algo::Elements,
            origin: QId::Id(0),
            destination: QId::Id(0),
            limit: 0,
            offset: 0,
            order_by: vec![],
            conditions: vec![],
        }
    }
    pub fn index(key: Val, value: Val) -> Self {
        CSearch {
            algo: Algo::Index,
            origin: QId::Id(0),
            destination: QId::Id(0),
            limit: 0,
            offset: 0,
            order_by: vec![],
            conditions: vec![CCond {
                logic: Logic::And,
                modifier: Modifier::None,
                data: CData::KeyValue(key, Cmp::Eq(value)),
            }],
        }
    }
    pub fn with(mut self, c: CCond) -> Self {
        self.conditions.push(c);
        self
    }
}

pub fn cond(data: CData) -> CCond {
    CCond {
        logic: Logic::And,
        modifier: Modifier::None,
        data,
    }
}

#[derive(Clone, Debug, PartialEq, Eq, Hash, Serialize, Deserialize)]
pub enum CQuery {
    InsertNodes {
        count: u64,
        values: QVals,
        aliases: Vec<String>,
        ids: QIds,
    },
    InsertEdges {
        from: QIds,
        to: QIds,
        ids: QIds,
        values: QVals,
        each: bool,
    },
    InsertAliases {
        ids: QIds,
        aliases: Vec<String>,
    },
    InsertValues {
        ids: QIds,
        values: QVals,
    },
    InsertIndex(Val),
    Remove(QIds),
    RemoveAliases(Vec<String>),
    RemoveValues {
        ids: QIds,
        keys: Vec<Val>,
    },
    RemoveIndex(Val),
    SelectValues {
        ids: QIds,
        keys: Vec<Val>,
    },
    SelectKeys(QIds),
    SelectKeyCount(QIds),
    SelectAliases(QIds),
    SelectAllAliases,
    SelectEdgeCount {
        ids: QIds,
        from: bool,
        to: bool,
    },
    SelectIndexes,
    SelectNodeCount,
    Search(CSearch),
}

impl CQuery {
    pub fn is_mut(&self) -> bool {
        matches!(
            self,
            CQuery::InsertNodes { .. }
                | CQuery::InsertEdges { .. }
                | CQuery::InsertAliases { .. }
                | CQuery::InsertValues { .. }
                | CQuery::InsertIndex(_)
                | CQuery::Remove(_)
                | CQuery::RemoveAliases(_)
                | CQuery::RemoveValues { .. }
                | CQuery::RemoveIndex(_)
        )
    }

    pub fn kind(&self) -> &'static str {
        match self {
            CQuery::InsertNodes { ids, .. } => {
                if matches!(ids, QIds::Ids(v) if v.is_empty()) {
                    "insert_nodes"
                } else {
                    "insert_nodes_ids"
                }
            }
            CQuery::InsertEdges { ids, .. } => {
                if matches!(ids, QIds::Ids(v) if v.is_empty()) {
                    "insert_edges"
                } else {
                    "insert_edges_ids"
                }
            }
            CQuery::InsertAliases { .. } => "insert_aliases",
            CQuery::InsertValues { .. } => "insert_values",
            CQuery::InsertIndex(_) => "insert_index",
            CQuery::Remove(_) => "remove",
            CQuery::RemoveAliases(_) => "remove_aliases",
            CQuery::RemoveValues { .. } => "remove_values",
            CQuery::RemoveIndex(_) => "remove_index",
            CQuery::SelectValues { keys, .. } => {
                if keys.is_empty() {
                    "select_values"
                } else {
                    "select_values_keys"
                }
            }
            CQuery::SelectKeys(_) => "select_keys",
            CQuery::SelectKeyCount(_) => "select_key_count",
            CQuery::SelectAliases(_) => "select_aliases",
            CQuery::SelectAllAliases => "select_all_aliases",
            CQuery::SelectEdgeCount { .. } => "select_edge_count",
            CQuery::SelectIndexes => "select_indexes",
            CQuery::SelectNodeCount => "select_node_count",
            CQuery::Search(s) => match s.algo {
                Algo::Index => "search_index",
                Algo::Elements => "search_elements",
                _ => {
                    if s.origin != QId::Id(0) && s.destination != QId::Id(0) {
                        "search_path"
                    } else {
                        "search"
                    }
                }
            },
        }
    }
}

// ------------------------------------------------------------------------------------
// conversion to agdb

pub fn qid(q: &QId) -> QueryId {
    match q {
        QId::Id(i) => QueryId::Id(DbId(*i)),
        QId::Alias(a) => QueryId::Alias(a.clone()),
        other => panic!("unresolved selector {other:?}"),
    }
}

pub fn qids(q: &QIds) -> QueryIds {
    match q {
        QIds::Ids(v) => QueryIds::Ids(v.iter().map(qid).collect()),
        QIds::Search(s) => QueryIds::Search(search(s)),
    }
}

pub fn kvs(v: &[(Val, Val)]) -> Vec<DbKeyValue> {
    v.iter().map(|(k, v)| crate::val::kv(k, v)).collect()
}

pub fn qvals(v: &QVals) -> QueryValues {
    match v {
        QVals::Single(s) => QueryValues::Single(kvs(s)),
        QVals::Multi(m) => QueryValues::Multi(m.iter().map(|s| kvs(s)).collect()),
    }
}

pub fn count_cmp(c: &CountCmp) -> CountComparison {
    match c {
        CountCmp::Eq(v) => CountComparison::Equal(*v),
        CountCmp::Gt(v) => CountComparison::GreaterThan(*v),
        CountCmp::Ge(v) => CountComparison::GreaterThanOrEqual(*v),
        CountCmp::Lt(v) => CountComparison::LessThan(*v),
        CountCmp::Le(v) => CountComparison::LessThanOrEqual(*v),
        CountCmp::Ne(v) => CountComparison::NotEqual(*v),
    }
}

pub fn cmp(c: &Cmp) -> Comparison {
    match c {
        Cmp::Eq(v) => Comparison::Equal(v.to_db()),
        Cmp::Gt(v) => Comparison::GreaterThan(v.to_db()),
        Cmp::Ge(v) => Comparison::GreaterThanOrEqual(v.to_db()),
        Cmp::Lt(v) => Comparison::LessThan(v.to_db()),
        Cmp::Le(v) => Comparison::LessThanOrEqual(v.to_db()),
        Cmp::Ne(v) => Comparison::NotEqual(v.to_db()),
        Cmp::Contains(v) => Comparison::Contains(v.to_db()),
        Cmp::StartsWith(v) => Comparison::StartsWith(v.to_db()),
        Cmp::EndsWith(v) => Comparison::EndsWith(v.to_db()),
    }
}

pub fn condition(c: &CCond) -> QueryCondition {
    QueryCondition {
        logic: match c.logic {
            Logic::And => QueryConditionLogic::And,
            Logic::Or => QueryConditionLogic::Or,
        },
        modifier: match c.modifier {
            Modifier::None => QueryConditionModifier::None,
            Modifier::Beyond => QueryConditionModifier::Beyond,
            Modifier::Not => QueryConditionModifier::Not,
            Modifier::NotBeyond => QueryConditionModifier::NotBeyond,
        },
        data: match &c.data {
            CData::Distance(c) => QueryConditionData::Distance(count_cmp(c)),
            CData::Edge => QueryConditionData::Edge,
            CData::EdgeCount(c) => QueryConditionData::EdgeCount(count_cmp(c)),
            CData::EdgeCountFrom(c) => QueryConditionData::EdgeCountFrom(count_cmp(c)),
            CData::EdgeCountTo(c) => QueryConditionData::EdgeCountTo(count_cmp(c)),
            CData::Ids(v) => QueryConditionData::Ids(v.iter().map(qid).collect()),
            CData::KeyValue(k, c) => QueryConditionData::KeyValue(KeyValueComparison {
                key: k.to_db(),
                value: cmp(c),
            }),
            CData::Keys(k) => QueryConditionData::Keys(k.iter().map(|k| k.to_db()).collect()),
            CData::Node => QueryConditionData::Node,
            CData::Where(w) => QueryConditionData::Where(w.iter().map(condition).collect()),
        },
    }
}

pub fn search(s: &CSearch) -> SearchQuery {
    SearchQuery {
        algorithm: match s.algo {
            Algo::Bfs => SearchQueryAlgorithm::BreadthFirst,
            Algo::Dfs => SearchQueryAlgorithm::DepthFirst,
            Algo::Index => SearchQueryAlgorithm::Index,
            Algo::Elements => SearchQueryAlgorithm::Elements,
        },
        origin: qid(&s.origin),
        destination: qid(&s.destination),
        limit: s.limit,
        offset: s.offset,
        order_by: s
            .order_by
            .iter()
            .map(|(asc, k)| {
                if *asc {
                    DbKeyOrder::Asc(k.to_db())
                } else {
                    DbKeyOrder::Desc(k.to_db())
                }
            })
            .collect(),
        conditions: s.conditions.iter().map(condition).collect(),
    }
}

/// Anything that can run both kinds of query: a database or a mutable transaction.
pub trait Exec {
    fn run(&mut self, q: &CQuery) -> Result<QueryResult, DbError>;
}

macro_rules! dispatch {
    ($q:expr, $mutf:expr, $immf:expr) => {
        match $q {
            CQuery::InsertNodes {
                count,
                values,
                aliases,
                ids,
            } => $mutf(AnyMut::Nodes(InsertNodesQuery {
                count: *count,
                values: qvals(values),
                aliases: aliases.clone(),
                ids: qids(ids),
            })),
            CQuery::InsertEdges {
                from,
                to,
                ids,
                values,
                each,
            } => $mutf(AnyMut::Edges(InsertEdgesQuery {
                from: qids(from),
                to: qids(to),
                ids: qids(ids),
                values: qvals(values),
                each: *each,
            })),
            CQuery::InsertAliases { ids, aliases } => $mutf(AnyMut::Aliases(InsertAliasesQuery {
                ids: qids(ids),
                aliases: aliases.clone(),
            })),
            CQuery::InsertValues { ids, values } => $mutf(AnyMut::Values(InsertValuesQuery {
                ids: qids(ids),
                values: qvals(values),
            })),
            CQuery::InsertIndex(k) => $mutf(AnyMut::Index(InsertIndexQuery(k.to_db()))),
            CQuery::Remove(ids) => $mutf(AnyMut::Remove(RemoveQuery(qids(ids)))),
            CQuery::RemoveAliases(a) => $mutf(AnyMut::RemAliases(RemoveAliasesQuery(a.clone()))),
            CQuery::RemoveValues { ids, keys } => {
                $mutf(AnyMut::RemValues(RemoveValuesQuery(SelectValuesQuery {
                    keys: keys.iter().map(|k| k.to_db()).collect(),
                    ids: qids(ids),
                })))
            }
            CQuery::RemoveIndex(k) => $mutf(AnyMut::RemIndex(RemoveIndexQuery(k.to_db()))),
            CQuery::SelectValues { ids, keys } => $immf(AnyImm::Values(SelectValuesQuery {
                keys: keys.iter().map(|k| k.to_db()).collect(),
                ids: qids(ids),
            })),
            CQuery::SelectKeys(ids) => $immf(AnyImm::Keys(SelectKeysQuery(qids(ids)))),
            CQuery::SelectKeyCount(ids) => $immf(AnyImm::KeyCount(SelectKeyCountQuery(qids(ids)))),
            CQuery::SelectAliases(ids) => $immf(AnyImm::Aliases(SelectAliasesQuery(qids(ids)))),
            CQuery::SelectAllAliases => $immf(AnyImm::AllAliases(SelectAllAliasesQuery {})),
            CQuery::SelectEdgeCount { ids, from, to } => {
                $immf(AnyImm::EdgeCount(SelectEdgeCountQuery {
                    ids: qids(ids),
                    from: *from,
                    to: *to,
                }))
            }
            CQuery::SelectIndexes => $immf(AnyImm::Indexes(SelectIndexesQuery {})),
            CQuery::SelectNodeCount => $immf(AnyImm::NodeCount(SelectNodeCountQuery {})),
            CQuery::Search(s) => $immf(AnyImm::Search(search(s))),
        }
    };
}

pub enum AnyMut {
    Nodes(InsertNodesQuery),
    Edges(InsertEdgesQuery),
    Aliases(InsertAliasesQuery),
    Values(InsertValuesQuery),
    Index(InsertIndexQuery),
    Remove(RemoveQuery),
    RemAliases(RemoveAliasesQuery),
    RemValues(RemoveValuesQuery),
    RemIndex(RemoveIndexQuery),
}

pub enum AnyImm {
    Values(SelectValuesQuery),
    Keys(SelectKeysQuery),
    KeyCount(SelectKeyCountQuery),
    Aliases(SelectAliasesQuery),
    AllAliases(SelectAllAliasesQuery),
    EdgeCount(SelectEdgeCountQuery),
    Indexes(SelectIndexesQuery),
    NodeCount(SelectNodeCountQuery),
    Search(SearchQuery),
}

macro_rules! run_mut {
    ($target:expr, $q:expr) => {
        match $q {
            AnyMut::Nodes(q) => $target.exec_mut(q),
            AnyMut::Edges(q) => $target.exec_mut(q),
            AnyMut::Aliases(q) => $target.exec_mut(q),
            AnyMut::Values(q) => $target.exec_mut(q),
            AnyMut::Index(q) => $target.exec_mut(q),
            AnyMut::Remove(q) => $target.exec_mut(q),
            AnyMut::RemAliases(q) => $target.exec_mut(q),
            AnyMut::RemValues(q) => $target.exec_mut(q),
            AnyMut::RemIndex(q) => $target.exec_mut(q),
        }
    };
}

macro_rules! run_imm {
    ($target:expr, $q:expr) => {
        match $q {
            AnyImm::Values(q) => $target.exec(q),
            AnyImm::Keys(q) => $target.exec(q),
            AnyImm::KeyCount(q) => $target.exec(q),
            AnyImm::Aliases(q) => $target.exec(q),
            AnyImm::AllAliases(q) => $target.exec(q),
            AnyImm::EdgeCount(q) => $target.exec(q),
            AnyImm::Indexes(q) => $target.exec(q),
            AnyImm::NodeCount(q) => $target.exec(q),
            AnyImm::Search(q) => $target.exec(q),
        }
    };
}

impl<S: StorageData> Exec for DbImpl<S> {
    fn run(&mut self, q: &CQuery) -> Result<QueryResult, DbError> {
        dispatch!(q, |m: AnyMut| run_mut!(self, m), |i: AnyImm| run_imm!(self, i))
    }
}

impl<S: StorageData> Exec for TransactionMut<'_, S> {
    fn run(&mut self, q: &CQuery) -> Result<QueryResult, DbError> {
        dispatch!(q, |m: AnyMut| run_mut!(self, m), |i: AnyImm| run_imm!(self, i))
    }
}

/// The query as the serialisable `QueryType` enum (server API, C20/C21/C25).
pub fn to_query_type(q: &CQuery) -> agdb::QueryType {
    use agdb::QueryType as T;
    dispatch!(
        q,
        |m: AnyMut| match m {
            AnyMut::Nodes(q) => T::InsertNodes(q),
            AnyMut::Edges(q) => T::InsertEdges(q),
            AnyMut::Aliases(q) => T::InsertAlias(q),
            AnyMut::Values(q) => T::InsertValues(q),
            AnyMut::Index(q) => T::InsertIndex(q),
            AnyMut::Remove(q) => T::Remove(q),
            AnyMut::RemAliases(q) => T::RemoveAliases(q),
            AnyMut::RemValues(q) => T::RemoveValues(q),
            AnyMut::RemIndex(q) => T::RemoveIndex(q),
        },
        |i: AnyImm| match i {
            AnyImm::Values(q) => T::SelectValues(q),
            AnyImm::Keys(q) => T::SelectKeys(q),
            AnyImm::KeyCount(q) => T::SelectKeyCount(q),
            AnyImm::Aliases(q) => T::SelectAliases(q),
            AnyImm::AllAliases(q) => T::SelectAllAliases(q),
            AnyImm::EdgeCount(q) => T::SelectEdgeCount(q),
            AnyImm::Indexes(q) => T::SelectIndexes(q),
            AnyImm::NodeCount(q) => T::SelectNodeCount(q),
            AnyImm::Search(q) => T::Search(q),
        }
    )
}

/// Read-only execution inside a read transaction.
pub fn run_read_tx<S: StorageData>(t: &agdb::Transaction<'_, S>, q: &CQuery) -> Result<QueryResult, DbError> {
    dispatch!(
        q,
        |_m: AnyMut| Err(crate::core::db_err("mutating query passed to run_read_tx")),
        |i: AnyImm| run_imm!(t, i)
    )
}

/// Read-only execution on a shared reference.
pub fn run_read<S: StorageData>(db: &DbImpl<S>, q: &CQuery) -> Result<QueryResult, DbError> {
    dispatch!(
        q,
        |_m: AnyMut| Err(crate::core::db_err("mutating query passed to run_read")),
        |i: AnyImm| run_imm!(db, i)
    )
}
