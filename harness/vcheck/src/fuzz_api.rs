//! Entry points for the libFuzzer targets under /verif/fuzzing/fuzz (appendix H of DESIGN.md).
//! Every target carries its semantic oracle: a failure panics with the oracle's signature, which
//! libFuzzer records as a crash and saves as the reproducing input.
use crate::core::*;
use agdb::{AgdbSerialize, DbKeyValue, DbValue};

struct Bytes<'a>(&'a [u8], usize);
impl Bytes<'_> {
    fn u8(&mut self) -> u8 {
        let v = self.0.get(self.1).cloned().unwrap_or(0);
        self.1 += 1;
        v
    }
    fn u16(&mut self) -> u16 {
        u16::from_le_bytes([self.u8(), self.u8()])
    }
    fn u64(&mut self) -> u64 {
        let mut b = [0u8; 8];
        for x in &mut b {
            *x = self.u8();
        }
        u64::from_le_bytes(b)
    }
    fn done(&self) -> bool {
        self.1 >= self.0.len()
    }
    fn take(&mut self, n: usize) -> Vec<u8> {
        (0..n).map(|_| self.u8()).collect()
    }
}

/// C21: the first byte selects one of the registered deserializers / typed conversions, the
/// rest is the input. Oracle: returns (Ok or Err); a panic is the crash.
pub fn c21_bytes(data: &[u8]) {
    if data.is_empty() {
        return;
    }
    let reg = crate::props_ser::registry();
    let (_, f) = reg[data[0] as usize % reg.len()];
    let _ = f(&data[1..]);
}

fn value(b: &mut Bytes, depth: u8) -> DbValue {
    let len = |b: &mut Bytes| -> usize {
        let k = b.u8();
        match k % 8 {
            0 => 0,
            1 => 15,
            2 => 16,
            3 => 17,
            _ => (k as usize) % 40,
        }
    };
    match b.u8() % 9 {
        0 => {
            let n = len(b);
            DbValue::Bytes(b.take(n))
        }
        1 => DbValue::I64(b.u64() as i64),
        2 => DbValue::U64(b.u64()),
        3 => DbValue::F64(f64::from_bits(b.u64()).into()),
        4 => {
            let n = len(b);
            DbValue::String(String::from_utf8_lossy(&b.take(n)).to_string())
        }
        5 => {
            let n = (b.u8() % 5) as usize;
            DbValue::VecI64((0..n).map(|_| b.u64() as i64).collect())
        }
        6 => {
            let n = (b.u8() % 5) as usize;
            DbValue::VecU64((0..n).map(|_| b.u64()).collect())
        }
        7 => {
            let n = (b.u8() % 5) as usize;
            DbValue::VecF64((0..n).map(|_| f64::from_bits(b.u64()).into()).collect())
        }
        _ => {
            let n = (b.u8() % 4) as usize;
            let _ = depth;
            DbValue::VecString(
                (0..n)
                    .map(|_| {
                        let l = len(b);
                        String::from_utf8_lossy(&b.take(l)).to_string()
                    })
                    .collect(),
            )
        }
    }
}

fn roundtrip<T: AgdbSerialize + std::fmt::Debug>(x: &T, what: &str) {
    let bytes = x.serialize();
    assert_eq!(x.serialized_size(), bytes.len() as u64, "serialized_size differs from the bytes produced ({what}): {x:?}");
    let back = T::deserialize(&bytes).unwrap_or_else(|e| panic!("deserializing its own encoding fails ({what}): {x:?}: {e:?}"));
    // floats compare by bit pattern through the re-serialized bytes
    assert_eq!(back.serialize(), bytes, "round trip yields a different value ({what}): {x:?} -> {back:?}");
}

/// C20: values built from the input bytes (boundary lengths around the 15/16 byte inline limit,
/// float bit patterns, vectors) round-trip and report their exact size; also as key-value pairs
/// and vectors of them.
pub fn c20_values(data: &[u8]) {
    let mut b = Bytes(data, 0);
    let mut all = vec![];
    while !b.done() && all.len() < 8 {
        let v = value(&mut b, 0);
        roundtrip(&v, "DbValue");
        all.push(v);
    }
    if all.len() >= 2 {
        let kv = DbKeyValue { key: all[0].clone(), value: all[1].clone() };
        roundtrip(&kv, "DbKeyValue");
        let kvs: Vec<DbKeyValue> = all.chunks(2).filter(|c| c.len() == 2).map(|c| DbKeyValue { key: c[0].clone(), value: c[1].clone() }).collect();
        roundtrip(&kvs, "Vec<DbKeyValue>");
    }
    roundtrip(&all, "Vec<DbValue>");
}

/// C04: the input decodes into a storage program (same operation grammar and the same
/// reference-map oracle as the proptest campaign) run on all three back-ends.
pub fn c04_program(data: &[u8]) {
    use crate::props_storage::SOp;
    let mut b = Bytes(data, 0);
    let mut ops = vec![];
    let small = |b: &mut Bytes| -> u16 {
        let k = b.u8();
        match k % 6 {
            0 => 0,
            1 => 8,
            2 => 16,
            3 => 24,
            _ => (k as u16) % 70,
        }
    };
    while !b.done() && ops.len() < 200 {
        let op = match b.u8() % 16 {
            0..=3 => SOp::Insert { len: small(&mut b), seed: b.u8() },
            4 => SOp::InsertAt { idx: b.u16(), off: small(&mut b), len: small(&mut b), seed: b.u8() },
            5 | 6 => SOp::Replace { idx: b.u16(), len: small(&mut b), seed: b.u8() },
            7 => SOp::Resize { idx: b.u16(), size: small(&mut b) },
            8 => SOp::MoveAt { idx: b.u16(), from: small(&mut b), to: small(&mut b), size: small(&mut b) },
            9 | 10 => SOp::Remove { idx: b.u16() },
            11 => SOp::Optimize,
            12 => SOp::Reopen,
            13 => SOp::Begin,
            14 => SOp::End,
            _ => SOp::OutOfRange { idx: b.u16(), extra: b.u8() },
        };
        ops.push(op);
    }
    if let Err(f) = crate::props_storage::c04_case_pub(&ops) {
        if !f.sig.starts_with("harness:") {
            panic!("C04 oracle: {} | {}", f.sig, truncate(&f.detail, 1500));
        }
    }
}

/// C07: the input is a data file (first two bytes: length of the data part) followed by a
/// recovery log; opened with every variant and read completely. Panics whose signature is a
/// listed known finding are tolerated (so that a campaign does not rediscover one crash for
/// ever) unless VERIF_FUZZ_STRICT is set; enormous allocations are left to -malloc_limit_mb.
pub fn c07_file(data: &[u8]) {
    if data.len() < 2 {
        return;
    }
    let split = (u16::from_le_bytes([data[0], data[1]]) as usize).min(data.len() - 2);
    let (file, log) = data[2..].split_at(split);
    // the triggers of the two listed allocation findings are excluded by construction (a crash
    // in the allocator cannot be tolerated in-process): a record header whose index field is
    // enormous, and a recovery-log record positioned far beyond the data file
    if std::env::var("VERIF_FUZZ_STRICT").is_err() {
        if crate::props_damage::records(file).iter().any(|(_, index, _)| *index > (1 << 22)) {
            return;
        }
        let mut p = 0usize;
        while p + 16 <= log.len() {
            let pos = u64::from_le_bytes(log[p..p + 8].try_into().unwrap());
            let len = u64::from_le_bytes(log[p + 8..p + 16].try_into().unwrap());
            if pos > (1 << 24) {
                return;
            }
            p = p.saturating_add(16).saturating_add(len.min(1 << 20) as usize);
        }
    }
    if let Err(f) = crate::props_damage::open_and_read_pub(file, if log.is_empty() { None } else { Some(log) }) {
        let strict = std::env::var("VERIF_FUZZ_STRICT").is_ok();
        let known = KnownFindings::load().for_property("C07").iter().any(|k| k.signature == f.sig);
        if f.sig.starts_with("harness:") || (known && !strict) {
            return;
        }
        panic!("C07 oracle: {} | {}", f.sig, truncate(&f.detail, 1500));
    }
}

/// Runs a raw fuzz input (a saved libFuzzer artifact or corpus file) through the oracle of its
/// property, strictly (nothing tolerated). Returns the failure, if any.
pub fn replay_raw(id: &str, data: &[u8]) -> Result<(), Fail> {
    // SAFETY: single-threaded start-up code of the replay path
    unsafe { std::env::set_var("VERIF_FUZZ_STRICT", "1") };
    let data = data.to_vec();
    let id = id.to_string();
    catch(move || match id.as_str() {
        "C04" => c04_program(&data),
        "C07" => c07_file(&data),
        "C20" => c20_values(&data),
        "C21" => c21_bytes(&data),
        _ => {}
    })
    .map_err(|mut f| {
        f.sig = format!("fuzz input: {}", f.sig);
        f
    })
}

/// Writes a small seed corpus for every target (valid encodings and valid database files) and
/// returns the number of files written.
pub fn write_seeds(dir: &str) -> usize {
    use proptest::strategy::{Strategy, ValueTree};
    let mut n = 0;
    let mut put = |target: &str, name: String, bytes: Vec<u8>| {
        let d = format!("{dir}/{target}");
        let _ = std::fs::create_dir_all(&d);
        if std::fs::write(format!("{d}/{name}"), bytes).is_ok() {
            n += 1;
        }
    };
    // C21 / C20: one valid encoding per registered type
    let reg = crate::props_ser::registry();
    let mut runner = det_runner(derive_seed(7, &[0xF022]));
    for round in 0..3 {
        for (i, (ty, _)) in reg.iter().enumerate() {
            let case = crate::props_ser::ser_case_pub().new_tree(&mut runner).expect("strategy").current();
            if case.ty == *ty || round == 0 {
                let idx = reg.iter().position(|(n, _)| *n == case.ty).unwrap_or(i) as u8;
                let mut b = vec![idx];
                b.extend(&case.bytes);
                put("fuzz_deserialize", format!("valid-{round}-{i}"), b.clone());
                put("fuzz_serialize_rt", format!("bytes-{round}-{i}"), case.bytes.clone());
            }
        }
    }
    // C04: a few byte strings that decode into programs with reuse and maintenance
    for k in 0..12u8 {
        let b: Vec<u8> = (0..120u32).map(|i| (i as u8).wrapping_mul(37).wrapping_add(k.wrapping_mul(11))).collect();
        put("fuzz_storage_ops", format!("prog-{k}"), b);
    }
    // C07: valid database files from generated histories, with and without a log
    let p = crate::vgen::Profile::general();
    for k in 0..10u64 {
        let mut runner = det_runner(derive_seed(k, &[0xF007]));
        let history = crate::vgen::history(&p, 5, 25).new_tree(&mut runner).expect("strategy").current();
        if let Some(file) = crate::props_damage::valid_file_pub(&history) {
            if file.len() < 60_000 {
                let mut b = (file.len() as u16).to_le_bytes().to_vec();
                b.extend(&file);
                put("fuzz_open_db", format!("valid-{k}"), b.clone());
                // a log with one plausible record
                b.extend(&(24u64).to_le_bytes());
                b.extend(&(8u64).to_le_bytes());
                b.extend(&[1u8; 8]);
                put("fuzz_open_db", format!("valid-with-log-{k}"), b);
            }
        }
    }
    n
}

/// Regression tier for raw fuzz inputs: every `*.bin` under replays/<id>/ (saved libFuzzer
/// artifacts of repaired findings) and every committed seed of the property's target is run
/// through the strict oracle.
pub fn replay_raw_saved(ctx: &mut Ctx) {
    if ctx.child.as_ref().map(|c| c.index != 0 || c.restart != 0).unwrap_or(false) {
        return;
    }
    let target = match ctx.id.as_str() {
        "C04" => "fuzz_storage_ops",
        "C07" => "fuzz_open_db",
        "C20" => "fuzz_serialize_rt",
        "C21" => "fuzz_deserialize",
        _ => return,
    };
    let mut files: Vec<std::path::PathBuf> = vec![];
    for dir in [format!("{}/replays/{}", verif_root(), ctx.id), format!("{}/fuzzing/seeds/{target}", verif_root())] {
        if let Ok(rd) = std::fs::read_dir(&dir) {
            let mut v: Vec<_> = rd.flatten().map(|e| e.path()).filter(|p| p.is_file() && p.extension().map(|e| e != "json").unwrap_or(true)).collect();
            v.sort();
            files.extend(v);
        }
    }
    let id = ctx.id.clone();
    let mut n = 0u64;
    for f in files {
        let Ok(bytes) = std::fs::read(&f) else { continue };
        n += 1;
        ctx.evaluations += 1;
        if let Err(fail) = replay_raw(&id, &bytes) {
            let inner = fail.sig.split("oracle: ").nth(1).map(|x| x.split(" | ").next().unwrap_or(x).to_string()).unwrap_or(fail.sig.clone());
            let fail = Fail::new(inner, format!("{}\n{}", f.display(), fail.detail));
            ctx.record_failure("fuzz-input", &serde_json::json!({"raw_input_file": f.display().to_string()}), &fail);
        }
    }
    // the strict switch is only for this tier
    // SAFETY: no other thread runs yet
    unsafe { std::env::remove_var("VERIF_FUZZ_STRICT") };
    ctx.label("raw fuzz inputs replayed (seed corpus and saved artifacts)", n);
}
