//! C04 (storage layer vs reference storage on all back-ends) and C01 (recovery-log replay at
//! every crash point, including torn log records and crashes during recovery).
use crate::core::*;
use agdb::verif::{FsEvent, FsEventKind, VerifStorage, set_fs_callback};
use agdb::{FileStorage, FileStorageMemoryMapped, MemoryStorage, StorageData};
use proptest::prelude::*;
use serde::{Deserialize, Serialize};
use std::cell::RefCell;
use std::collections::BTreeMap;
use std::rc::Rc;

#[derive(Clone, Debug, Serialize, Deserialize, PartialEq, Eq, Hash)]
pub enum SOp {
    Insert { len: u16, seed: u8 },
    InsertAt { idx: u16, off: u16, len: u16, seed: u8 },
    Replace { idx: u16, len: u16, seed: u8 },
    Resize { idx: u16, size: u16 },
    MoveAt { idx: u16, from: u16, to: u16, size: u16 },
    Remove { idx: u16 },
    Optimize,
    Begin,
    End,
    Reopen,
    /// operations on an index that is not live (must be rejected without effect)
    InvalidRead { k: u8 },
    InvalidReplace { k: u8 },
    InvalidRemove { k: u8 },
    /// read / move out of range on a live index
    OutOfRange { idx: u16, extra: u8 },
}

pub fn bytes_of(len: u16, seed: u8) -> Vec<u8> {
    (0..len as usize).map(|i| (seed as usize).wrapping_add(i * 7 + (i >> 8)) as u8 | 1).collect()
}

#[derive(Clone, Debug, Default, PartialEq)]
pub struct RefStorage {
    pub values: BTreeMap<u64, Vec<u8>>,
    pub max_index: u64,
}

/// sizes around the 16-byte record header and typical free-region arithmetic
fn size_strategy() -> BoxedStrategy<u16> {
    prop_oneof![
        4 => prop::sample::select(vec![0u16, 1, 7, 8, 15, 16, 17, 24, 31, 32, 33, 40, 48, 64]),
        5 => 0u16..65,
        1 => 250u16..320,
    ]
    .boxed()
}

fn sop(crash_mode: bool) -> BoxedStrategy<SOp> {
    let mut alts: Vec<(u32, BoxedStrategy<SOp>)> = vec![
        (10, (size_strategy(), any::<u8>()).prop_map(|(len, seed)| SOp::Insert { len, seed }).boxed()),
        (
            8,
            (any::<u16>(), prop_oneof![3 => 0u16..40, 1 => Just(u16::MAX), 1 => 60u16..90], size_strategy(), any::<u8>())
                .prop_map(|(idx, off, len, seed)| SOp::InsertAt { idx, off, len, seed })
                .boxed(),
        ),
        (8, (any::<u16>(), size_strategy(), any::<u8>()).prop_map(|(idx, len, seed)| SOp::Replace { idx, len, seed }).boxed()),
        (8, (any::<u16>(), size_strategy()).prop_map(|(idx, size)| SOp::Resize { idx, size }).boxed()),
        (
            8,
            (any::<u16>(), any::<u16>(), any::<u16>(), prop_oneof![1 => Just(0u16), 4 => any::<u16>()])
                .prop_map(|(idx, from, to, size)| SOp::MoveAt { idx, from, to, size })
                .boxed(),
        ),
        (7, any::<u16>().prop_map(|idx| SOp::Remove { idx }).boxed()),
        (2, Just(SOp::Optimize).boxed()),
    ];
    if crash_mode {
        alts.push((6, Just(SOp::Begin).boxed()));
        alts.push((6, Just(SOp::End).boxed()));
    } else {
        alts.push((2, Just(SOp::Reopen).boxed()));
        alts.push((1, any::<u8>().prop_map(|k| SOp::InvalidRead { k }).boxed()));
        alts.push((1, any::<u8>().prop_map(|k| SOp::InvalidReplace { k }).boxed()));
        alts.push((1, any::<u8>().prop_map(|k| SOp::InvalidRemove { k }).boxed()));
        alts.push((1, (any::<u16>(), any::<u8>()).prop_map(|(idx, extra)| SOp::OutOfRange { idx, extra }).boxed()));
    }
    proptest::strategy::Union::new_weighted(alts).boxed()
}

/// Concrete effect of an op on the model; returns what the real storage call must do.
enum Planned {
    Insert(Vec<u8>),
    InsertAt(u64, u64, Vec<u8>),
    Replace(u64, Vec<u8>),
    Resize(u64, u64),
    MoveAt(u64, u64, u64, u64),
    Remove(u64),
    Optimize,
    Begin,
    End,
    Reopen,
    InvalidRead(u64),
    InvalidReplace(u64),
    InvalidRemove(u64),
    OutOfRangeRead(u64, u64, u64),
    OutOfRangeMove(u64, u64, u64, u64),
    Skip,
}

impl RefStorage {
    fn live(&self, sel: u16) -> Option<u64> {
        let v: Vec<u64> = self.values.keys().cloned().collect();
        if v.is_empty() { None } else { Some(v[pick(sel, v.len())]) }
    }
    fn dead(&self, k: u8) -> u64 {
        // an index that is not live: a removed one if possible, else beyond the maximum
        let dead: Vec<u64> = (1..=self.max_index).filter(|i| !self.values.contains_key(i)).collect();
        if !dead.is_empty() && k % 2 == 0 {
            dead[(k as usize / 2) % dead.len()]
        } else {
            self.max_index + 1 + k as u64
        }
    }

    fn plan(&self, op: &SOp) -> Planned {
        match op {
            SOp::Insert { len, seed } => Planned::Insert(bytes_of(*len, *seed)),
            SOp::InsertAt { idx, off, len, seed } => match self.live(*idx) {
                Some(i) => {
                    let size = self.values[&i].len() as u64;
                    let off = if *off == u16::MAX { size } else { *off as u64 };
                    Planned::InsertAt(i, off, bytes_of(*len, *seed))
                }
                None => Planned::Skip,
            },
            SOp::Replace { idx, len, seed } => match self.live(*idx) {
                Some(i) => Planned::Replace(i, bytes_of(*len, *seed)),
                None => Planned::Skip,
            },
            SOp::Resize { idx, size } => match self.live(*idx) {
                Some(i) => Planned::Resize(i, *size as u64),
                None => Planned::Skip,
            },
            SOp::MoveAt { idx, from, to, size } => match self.live(*idx) {
                Some(i) => {
                    let n = self.values[&i].len() as u64;
                    // constructed to be valid: from + size <= n
                    let from = pick(*from, n as usize + 1) as u64;
                    let size = if *size == 0 { 0 } else { pick(*size, (n - from) as usize + 1) as u64 };
                    let to = pick(*to, n as usize + 9) as u64;
                    Planned::MoveAt(i, from, to, size)
                }
                None => Planned::Skip,
            },
            SOp::Remove { idx } => match self.live(*idx) {
                Some(i) => Planned::Remove(i),
                None => Planned::Skip,
            },
            SOp::Optimize => Planned::Optimize,
            SOp::Begin => Planned::Begin,
            SOp::End => Planned::End,
            SOp::Reopen => Planned::Reopen,
            SOp::InvalidRead { k } => Planned::InvalidRead(self.dead(*k)),
            SOp::InvalidReplace { k } => Planned::InvalidReplace(self.dead(*k)),
            SOp::InvalidRemove { k } => Planned::InvalidRemove(self.dead(*k)),
            SOp::OutOfRange { idx, extra } => match self.live(*idx) {
                Some(i) => {
                    let n = self.values[&i].len() as u64;
                    if extra % 2 == 0 {
                        Planned::OutOfRangeRead(i, n + 1 + (*extra as u64 / 2) % 3, 1)
                    } else {
                        Planned::OutOfRangeMove(i, n / 2, 0, n - n / 2 + 1 + (*extra as u64 / 2) % 3)
                    }
                }
                None => Planned::Skip,
            },
        }
    }

    fn insert_at(&mut self, i: u64, off: u64, bytes: &[u8]) {
        let v = self.values.get_mut(&i).unwrap();
        let end = off as usize + bytes.len();
        if v.len() < end {
            v.resize(end, 0);
        }
        v[off as usize..end].copy_from_slice(bytes);
    }

    fn move_at(&mut self, i: u64, from: u64, to: u64, size: u64) {
        let (from, to, size) = (from as usize, to as usize, size as usize);
        let chunk = self.values[&i][from..from + size].to_vec();
        self.insert_at(i, to as u64, &chunk);
        let v = self.values.get_mut(&i).unwrap();
        // zero the part of the source that the destination does not cover
        for p in from..from + size {
            if p < to || p >= to + size {
                v[p] = 0;
            }
        }
    }
}

pub trait Backend: StorageData + Sized {
    const NAME: &'static str;
    const PERSISTENT: bool;
}
impl Backend for MemoryStorage {
    const NAME: &'static str = "MemoryStorage";
    const PERSISTENT: bool = false;
}
impl Backend for FileStorage {
    const NAME: &'static str = "FileStorage";
    const PERSISTENT: bool = true;
}
impl Backend for FileStorageMemoryMapped {
    const NAME: &'static str = "FileStorageMemoryMapped";
    const PERSISTENT: bool = true;
}

fn storage_err(what: &str, e: impl std::fmt::Debug) -> Fail {
    Fail::new(format!("storage: {what}"), format!("{e:?}"))
}

#[derive(Default)]
struct ProgStats {
    reused_free_region: bool,
    maintenance_after_removal: bool,
    removed: bool,
    labels: Vec<String>,
    rewrote_same_region: bool,
    zero_length_write: bool,
    shrink_then_grow: bool,
    max_depth: usize,
}

/// Compare every live value and every dead index of a real storage with the model.
fn compare_all<D: StorageData>(st: &VerifStorage<D>, m: &RefStorage, full_ctx: &str) -> Result<(), Fail> {
    compare_all_inner(st, m, &short_ctx(full_ctx)).map_err(|mut f| {
        f.detail = format!("{full_ctx}: {}", f.detail);
        f
    })
}

/// signature part of a context string: back-end and operation kind, no step numbers / arguments
fn short_ctx(ctx: &str) -> String {
    match ctx.split_once(" step ") {
        Some((backend, rest)) => {
            let op = rest.split_once(' ').map(|(_, op)| op).unwrap_or(rest);
            let kind: String = op.chars().take_while(|c| c.is_alphanumeric()).collect();
            format!("{backend} after {kind}")
        }
        None => ctx.to_string(),
    }
}

fn compare_all_inner<D: StorageData>(st: &VerifStorage<D>, m: &RefStorage, ctx: &str) -> Result<(), Fail> {
    for (i, v) in &m.values {
        let got = catch(|| st.value_as_bytes(*i))?.map_err(|e| Fail::new(format!("storage: live value unreadable ({ctx})"), format!("index {i}: {e:?}")))?;
        if got != *v {
            let what = if got.len() != v.len() { "size differs" } else { "content differs" };
            return Err(Fail::new(format!("storage: live value {what} ({ctx})"), format!("index {i}: expected {v:?} got {got:?}")));
        }
        let sz = catch(|| st.value_size(*i))?.map_err(|e| storage_err("value_size failed", e))?;
        if sz != v.len() as u64 {
            return Err(Fail::new(format!("storage: value_size wrong ({ctx})"), format!("index {i}: expected {} got {sz}", v.len())));
        }
    }
    for i in 1..=m.max_index + 2 {
        if !m.values.contains_key(&i) {
            if let Ok(v) = catch(|| st.value_as_bytes(i))? {
                return Err(Fail::new(format!("storage: removed or unknown index readable ({ctx})"), format!("index {i} returned {v:?}")));
            }
        }
    }
    Ok(())
}

const HEADER: u64 = 16;

/// Executes a program on one back-end in lock-step with the model (C04).
fn run_program<D: Backend>(ops: &[SOp], dir: &TempDir, stats: &mut ProgStats) -> Result<(), Fail> {
    let name = dir.file(&format!("{}.bin", D::NAME));
    let mut st: VerifStorage<D> = catch(|| VerifStorage::<D>::new(&name))?.map_err(|e| storage_err("create failed", e))?;
    let empty_len = st.len();
    let mut m = RefStorage { values: BTreeMap::new(), max_index: 0 };
    let mut last_len = st.len();
    let mut freed_any = false;
    for (n, op) in ops.iter().enumerate() {
        let planned = m.plan(op);
        let ctx = format!("{} step {n} {op:?}", D::NAME);
        match planned {
            Planned::Skip | Planned::Begin | Planned::End => continue,
            Planned::Insert(bytes) => {
                let len_before = st.len();
                let idx = catch(|| st.insert_bytes(&bytes))?.map_err(|e| Fail::new("storage: insert rejected", format!("{ctx}: {e:?}")))?;
                if m.values.contains_key(&idx) || idx < 1 {
                    return Err(Fail::new("storage: insert returned an index in use", format!("{ctx}: index {idx}")));
                }
                if freed_any && st.len() == len_before {
                    stats.reused_free_region = true;
                }
                m.max_index = m.max_index.max(idx);
                m.values.insert(idx, bytes);
            }
            Planned::InsertAt(i, off, bytes) => {
                catch(|| st.insert_bytes_at(i, off, &bytes))?.map_err(|e| Fail::new("storage: insert_at rejected", format!("{ctx}: {e:?}")))?;
                if off > m.values[&i].len() as u64 {
                    stats.labels.push("insert_at beyond the end (zero-filled gap)".into());
                }
                m.insert_at(i, off, &bytes);
            }
            Planned::Replace(i, bytes) => {
                catch(|| st.replace_with_bytes(i, &bytes))?.map_err(|e| Fail::new("storage: replace rejected", format!("{ctx}: {e:?}")))?;
                let old = m.values[&i].len();
                stats.labels.push(if bytes.len() > old { "replace larger".into() } else if bytes.len() < old { "replace smaller".into() } else { "replace same size".to_string() });
                m.values.insert(i, bytes);
            }
            Planned::Resize(i, size) => {
                catch(|| st.resize_value(i, size))?.map_err(|e| Fail::new("storage: resize rejected", format!("{ctx}: {e:?}")))?;
                let old = m.values[&i].len() as u64;
                if size < old && old - size < HEADER {
                    stats.labels.push("shrink by less than a header".into());
                }
                m.values.get_mut(&i).unwrap().resize(size as usize, 0);
            }
            Planned::MoveAt(i, from, to, size) => {
                catch(|| st.move_at(i, from, to, size))?.map_err(|e| Fail::new("storage: move rejected", format!("{ctx} = move_at({i},{from},{to},{size}): {e:?}")))?;
                m.move_at(i, from, to, size);
                if size == 0 {
                    stats.labels.push("zero-size move".into());
                }
            }
            Planned::Remove(i) => {
                catch(|| st.remove(i))?.map_err(|e| Fail::new("storage: remove rejected", format!("{ctx}: {e:?}")))?;
                m.values.remove(&i);
                freed_any = true;
                stats.removed = true;
            }
            Planned::Optimize => {
                catch(|| st.optimize_storage())?.map_err(|e| Fail::new("storage: optimize failed", format!("{ctx}: {e:?}")))?;
                let expected: u64 = empty_len + m.values.values().map(|v| HEADER + v.len() as u64).sum::<u64>();
                if st.len() != expected {
                    return Err(Fail::new(
                        "storage: unused space left after optimize",
                        format!("{ctx}: len {} expected {expected} (empty {empty_len} + records)", st.len()),
                    ));
                }
                if stats.removed {
                    stats.maintenance_after_removal = true;
                }
                freed_any = false;
            }
            Planned::Reopen => {
                if D::PERSISTENT {
                    drop(st);
                    st = catch(|| VerifStorage::<D>::new(&name))?.map_err(|e| Fail::new("storage: reopen failed", format!("{ctx}: {e:?}")))?;
                    if stats.removed {
                        stats.maintenance_after_removal = true;
                    }
                }
            }
            Planned::InvalidRead(i) => {
                if let Ok(v) = catch(|| st.value_as_bytes(i))? {
                    return Err(Fail::new("storage: read of a dead index accepted", format!("{ctx}: index {i} returned {v:?}")));
                }
                if catch(|| st.value_size(i))?.is_ok() {
                    return Err(Fail::new("storage: value_size of a dead index accepted", format!("{ctx}: index {i}")));
                }
            }
            Planned::InvalidReplace(i) => {
                if catch(|| st.replace_with_bytes(i, &[1, 2, 3]))?.is_ok() {
                    return Err(Fail::new("storage: replace of a dead index accepted", format!("{ctx}: index {i}")));
                }
                if catch(|| st.insert_bytes_at(i, 0, &[1]))?.is_ok() {
                    return Err(Fail::new("storage: insert_at on a dead index accepted", format!("{ctx}: index {i}")));
                }
                if catch(|| st.resize_value(i, 4))?.is_ok() {
                    return Err(Fail::new("storage: resize of a dead index accepted", format!("{ctx}: index {i}")));
                }
            }
            Planned::InvalidRemove(i) => {
                if catch(|| st.remove(i))?.is_ok() {
                    return Err(Fail::new("storage: remove of a dead index accepted", format!("{ctx}: index {i}")));
                }
            }
            Planned::OutOfRangeRead(i, off, size) => {
                if let Ok(v) = catch(|| st.value_as_bytes_at_size(i, off, size))? {
                    return Err(Fail::new("storage: out-of-range read accepted", format!("{ctx}: index {i} off {off} size {size} returned {v:?}")));
                }
            }
            Planned::OutOfRangeMove(i, from, to, size) => {
                if catch(|| st.move_at(i, from, to, size))?.is_ok() {
                    return Err(Fail::new("storage: out-of-range move accepted", format!("{ctx}: move_at({i},{from},{to},{size})")));
                }
            }
        }
        compare_all(&st, &m, &ctx)?;
        let _ = last_len;
        last_len = st.len();
    }
    Ok(())
}

pub fn c04_case_pub(ops: &Vec<SOp>) -> CaseResult {
    c04_case(ops)
}

fn c04_case(ops: &Vec<SOp>) -> CaseResult {
    let dir = TempDir::new("c04");
    let mut ci = CaseInfo::default();
    let mut s1 = ProgStats::default();
    run_program::<MemoryStorage>(ops, &dir, &mut s1)?;
    let mut s2 = ProgStats::default();
    run_program::<FileStorage>(ops, &dir, &mut s2)?;
    let mut s3 = ProgStats::default();
    run_program::<FileStorageMemoryMapped>(ops, &dir, &mut s3)?;
    ci.evals = 3;
    ci.nontrivial = s2.reused_free_region && s2.maintenance_after_removal;
    if s2.reused_free_region {
        ci.label("reused a freed region");
    }
    if s2.maintenance_after_removal {
        ci.label("optimize or reopen after a removal");
    }
    let mut seen = std::collections::BTreeSet::new();
    for l in s2.labels {
        if seen.insert(l.clone()) {
            ci.label(l);
        }
    }
    Ok(ci)
}

pub fn c04(ctx: &mut Ctx) {
    crate::fuzz_api::replay_raw_saved(ctx);
    ctx.rule = "storage programs (insert, insert_at inside / at the end / beyond the end, replace larger/smaller/equal/empty, resize, move_at overlapping both directions and zero size, remove, optimize, reopen; sizes around the 16-byte record header; 5% operations on dead indexes or out of range that must be rejected without effect) executed on MemoryStorage, FileStorage and FileStorageMemoryMapped through the VerifStorage wrapper, in lock-step with a reference map index->bytes: after every step every live index reads back exactly (value_as_bytes, value_size), dead indexes are errors, fresh indexes are not live; after optimize len() == empty + sum(16 + size(live)). evaluations = programs x 3 back-ends. Non-trivial: the program reuses a freed region AND has an optimize or reopen after a removal. Distinct = hash of the program.".into();
    let cases = ctx.tier.pick(15_000, 150_000);
    let max = ctx.tier.pick(60usize, 400usize);
    replay_saved::<Vec<SOp>, _>(ctx, "c04-storage", c04_case);
    run_campaign(
        ctx,
        CampaignCfg { name: "c04-storage", cases, max_shrink_iters: 3000, max_restarts: 3 },
        move || prop::collection::vec(sop(false), 5..max),
        c04_case,
    );
}

pub fn c04_replay(path: &str) -> i32 {
    replay_file::<Vec<SOp>, _>(path, c04_case)
}

// ---------------------------------------------------------------------------------------
// C01

#[derive(Clone, Debug, Serialize, Deserialize)]
pub struct CrashProgram {
    pub mapped: bool,
    pub ops: Vec<SOp>,
    /// true: drop the storage with the open transactions unfinished at the end; false: close them
    pub drop_unfinished: bool,
}

#[derive(Clone)]
struct Image {
    event: usize,
    kind: FsEventKind,
    data: Vec<u8>,
    wal: Vec<u8>,
    /// number of outermost commits completed before this event
    commits_before: usize,
    /// index of the program operation during which the event happened
    op: usize,
}

#[derive(Clone, Debug)]
struct Committed {
    model: RefStorage,
    len: u64,
}

pub fn wal_name(file: &str) -> String {
    let p = std::path::Path::new(file);
    let name = p.file_name().unwrap().to_string_lossy();
    p.with_file_name(format!(".{name}")).to_string_lossy().to_string()
}

fn check_recovered<D: Backend>(path: &str, expected: &Committed, what: &str) -> Result<(), Fail> {
    let st = catch(|| VerifStorage::<D>::new(path))?.map_err(|e| Fail::new(format!("recovery: open failed ({what})"), format!("{e:?}")))?;
    compare_all(&st, &expected.model, what).map_err(|mut f| {
        f.sig = f.sig.replace("storage:", "recovery:");
        f
    })?;
    if st.len() != expected.len {
        return Err(Fail::new(format!("recovery: file length differs from the committed state ({what})"), format!("expected {} got {}", expected.len, st.len())));
    }
    drop(st);
    let wal_len = std::fs::metadata(wal_name(path)).map(|m| m.len()).unwrap_or(0);
    if wal_len != 0 {
        return Err(Fail::new(format!("recovery: log not empty after recovery ({what})"), format!("{wal_len} bytes left")));
    }
    Ok(())
}

fn write_image(dir: &TempDir, tag: &str, data: &[u8], wal: &[u8]) -> String {
    let path = dir.file(&format!("{tag}.bin"));
    std::fs::write(&path, data).expect("write image");
    std::fs::write(wal_name(&path), wal).expect("write image log");
    path
}

struct CrashOutcome {
    images_checked: u64,
    torn_checked: u64,
    double_checked: u64,
    nontrivial: Vec<u64>,
    stats: ProgStats,
}

fn c01_run<D: Backend>(c: &CrashProgram, all_events: bool, double_crash: bool) -> Result<CrashOutcome, Fail> {
    let dir = TempDir::new("c01");
    let name = dir.file("data.bin");
    let wal = wal_name(&name);
    let mut st: VerifStorage<D> = catch(|| VerifStorage::<D>::new(&name))?.map_err(|e| storage_err("create failed", e))?;
    let mut m = RefStorage { values: BTreeMap::new(), max_index: 0 };
    let mut committed = vec![Committed { model: m.clone(), len: st.len() }];
    let images: Rc<RefCell<Vec<Image>>> = Rc::new(RefCell::new(vec![]));
    let commits_seen = Rc::new(RefCell::new(0usize));
    let current_op = Rc::new(RefCell::new(0usize));
    let counter = Rc::new(RefCell::new(0usize));
    {
        let images = images.clone();
        let commits_seen = commits_seen.clone();
        let current_op = current_op.clone();
        let counter = counter.clone();
        let (name, wal) = (name.clone(), wal.clone());
        set_fs_callback(Some(Box::new(move |ev: &FsEvent| {
            let k = *counter.borrow();
            *counter.borrow_mut() += 1;
            let data = std::fs::read(&name).unwrap_or_default();
            let w = std::fs::read(&wal).unwrap_or_default();
            images.borrow_mut().push(Image {
                event: k,
                kind: ev.kind,
                data,
                wal: w,
                commits_before: *commits_seen.borrow(),
                op: *current_op.borrow(),
            });
            if ev.kind == FsEventKind::WalSetLen && ev.pos == 0 {
                *commits_seen.borrow_mut() += 1;
            }
        })));
    }
    let mut stats = ProgStats::default();
    let mut open_tx: Vec<u64> = vec![];
    let mut written_regions: Vec<(u64, u64)> = vec![]; // (index, op) touched in the current outermost tx
    let result = (|| -> Result<(), Fail> {
        for (n, op) in c.ops.iter().enumerate() {
            *current_op.borrow_mut() = n;
            let ctx = format!("{} step {n} {op:?}", D::NAME);
            let planned = m.plan(op);
            match planned {
                Planned::Begin => {
                    if open_tx.len() < 3 {
                        open_tx.push(st.transaction());
                        stats.max_depth = stats.max_depth.max(open_tx.len());
                    }
                    continue;
                }
                Planned::End => {
                    if let Some(id) = open_tx.pop() {
                        catch(|| st.commit(id))?.map_err(|e| Fail::new("storage: commit failed", format!("{ctx}: {e:?}")))?;
                    } else {
                        continue;
                    }
                }
                Planned::Insert(bytes) => {
                    let idx = catch(|| st.insert_bytes(&bytes))?.map_err(|e| Fail::new("storage: insert rejected", format!("{ctx}: {e:?}")))?;
                    if m.values.contains_key(&idx) {
                        return Err(Fail::new("storage: insert returned an index in use", format!("{ctx}: index {idx}")));
                    }
                    m.max_index = m.max_index.max(idx);
                    if bytes.is_empty() {
                        stats.zero_length_write = true;
                    }
                    m.values.insert(idx, bytes);
                    written_regions.push((idx, 1));
                }
                Planned::InsertAt(i, off, bytes) => {
                    catch(|| st.insert_bytes_at(i, off, &bytes))?.map_err(|e| Fail::new("storage: insert_at rejected", format!("{ctx}: {e:?}")))?;
                    if bytes.is_empty() {
                        stats.zero_length_write = true;
                    }
                    if written_regions.iter().any(|(x, _)| *x == i) {
                        stats.rewrote_same_region = true;
                    }
                    written_regions.push((i, 1));
                    m.insert_at(i, off, &bytes);
                }
                Planned::Replace(i, bytes) => {
                    catch(|| st.replace_with_bytes(i, &bytes))?.map_err(|e| Fail::new("storage: replace rejected", format!("{ctx}: {e:?}")))?;
                    if written_regions.iter().any(|(x, _)| *x == i) {
                        stats.rewrote_same_region = true;
                    }
                    written_regions.push((i, 1));
                    m.values.insert(i, bytes);
                }
                Planned::Resize(i, size) => {
                    catch(|| st.resize_value(i, size))?.map_err(|e| Fail::new("storage: resize rejected", format!("{ctx}: {e:?}")))?;
                    let old = m.values[&i].len() as u64;
                    if size > old && written_regions.iter().any(|(x, k)| *x == i && *k == 2) {
                        stats.shrink_then_grow = true;
                    }
                    written_regions.push((i, if size < old { 2 } else { 1 }));
                    m.values.get_mut(&i).unwrap().resize(size as usize, 0);
                }
                Planned::MoveAt(i, from, to, size) => {
                    catch(|| st.move_at(i, from, to, size))?.map_err(|e| Fail::new("storage: move rejected", format!("{ctx}: {e:?}")))?;
                    if size == 0 {
                        stats.zero_length_write = true;
                    }
                    if written_regions.iter().any(|(x, _)| *x == i) {
                        stats.rewrote_same_region = true;
                    }
                    written_regions.push((i, 1));
                    m.move_at(i, from, to, size);
                }
                Planned::Remove(i) => {
                    catch(|| st.remove(i))?.map_err(|e| Fail::new("storage: remove rejected", format!("{ctx}: {e:?}")))?;
                    m.values.remove(&i);
                    written_regions.push((i, 2));
                }
                Planned::Optimize => {
                    catch(|| st.optimize_storage())?.map_err(|e| Fail::new("storage: optimize failed", format!("{ctx}: {e:?}")))?;
                }
                _ => continue,
            }
            if open_tx.is_empty() {
                committed.push(Committed { model: m.clone(), len: st.len() });
                written_regions.clear();
            }
        }
        Ok(())
    })();
    *current_op.borrow_mut() = c.ops.len();
    if result.is_err() {
        set_fs_callback(None);
        result?;
    }
    // ending
    if !c.drop_unfinished {
        while let Some(id) = open_tx.pop() {
            let r = catch(|| st.commit(id));
            if let Ok(Err(e)) | Err(Fail { detail: e, .. }) = r.map(|r| r.map_err(|e| format!("{e:?}"))) {
                set_fs_callback(None);
                return Err(Fail::new("storage: commit failed", e));
            }
        }
        committed.push(Committed { model: m.clone(), len: st.len() });
    }
    let unfinished = !open_tx.is_empty();
    drop(st); // with unfinished transactions: must restore the last committed state
    set_fs_callback(None);
    let images = images.borrow().clone();
    let final_expected = committed.last().unwrap().clone();
    if *commits_seen.borrow() + 1 < committed.len() {
        return Err(Fail::new(
            "harness: fewer log truncations than outermost commits",
            format!("commits observed {} model snapshots {}", *commits_seen.borrow(), committed.len()),
        ));
    }
    // 1. files left behind by the drop
    check_recovered::<D>(&name, &final_expected, if unfinished { "after drop with unfinished transaction" } else { "after clean close" })?;
    // 2. crash images
    let mut out = CrashOutcome { images_checked: 0, torn_checked: 0, double_checked: 0, nontrivial: vec![], stats };
    let n = images.len();
    let selected: Vec<usize> = if all_events || n <= 80 {
        (0..n).collect()
    } else {
        // stratified: first and last event of every operation, every log clear, plus a spread
        let mut s = std::collections::BTreeSet::new();
        for i in 0..n {
            let first = i == 0 || images[i - 1].op != images[i].op;
            let last = i + 1 == n || images[i + 1].op != images[i].op;
            if first || last || images[i].kind == FsEventKind::WalSetLen {
                s.insert(i);
            }
        }
        let step = (n / 40).max(1);
        for i in (0..n).step_by(step) {
            s.insert(i);
        }
        s.into_iter().collect()
    };
    for &i in &selected {
        let img = &images[i];
        let expected = &committed[img.commits_before.min(committed.len() - 1)];
        let what = format!("image before event {} ({:?}) of step {}", img.event, img.kind, img.op);
        let path = write_image(&dir, &format!("img{i}"), &img.data, &img.wal);
        let sig_what = "crash image";
        check_recovered::<D>(&path, expected, sig_what).map_err(|mut f| {
            f.detail = format!("{}\n{what}\nlog bytes at crash: {}", f.detail, img.wal.len());
            f
        })?;
        out.images_checked += 1;
        if !img.wal.is_empty() {
            out.nontrivial.push(stable_hash(&(&img.data, &img.wal)));
        }
        // idempotence: recover the recovered files again
        check_recovered::<D>(&path, expected, "second recovery of a recovered image")?;
        // torn log record: the next image has the same data file and a longer log
        if img.kind == FsEventKind::WalWrite && i + 1 < n {
            let next = &images[i + 1];
            if next.data == img.data && next.wal.len() > img.wal.len() && next.wal.starts_with(&img.wal) {
                let (a, b) = (img.wal.len(), next.wal.len());
                let mut cuts = vec![a + 1, (a + b) / 2, b - 1];
                cuts.sort();
                cuts.dedup();
                for cut in cuts {
                    if cut > a && cut < b {
                        let path = write_image(&dir, &format!("torn{i}-{cut}"), &img.data, &next.wal[..cut]);
                        check_recovered::<D>(&path, expected, "torn log record").map_err(|mut f| {
                            f.detail = format!("{}\n{what}, log cut at {cut} of {b}", f.detail);
                            f
                        })?;
                        out.torn_checked += 1;
                        out.nontrivial.push(stable_hash(&(&img.data, &next.wal[..cut])));
                    }
                }
            }
        }
        // crash during recovery
        if double_crash && !img.wal.is_empty() {
            let path = write_image(&dir, &format!("dbl{i}"), &img.data, &img.wal);
            let wal2 = wal_name(&path);
            let second: Rc<RefCell<Vec<(Vec<u8>, Vec<u8>)>>> = Rc::new(RefCell::new(vec![]));
            {
                let second = second.clone();
                let (p, w) = (path.clone(), wal2.clone());
                set_fs_callback(Some(Box::new(move |_ev: &FsEvent| {
                    second.borrow_mut().push((std::fs::read(&p).unwrap_or_default(), std::fs::read(&w).unwrap_or_default()));
                })));
            }
            let r = catch(|| VerifStorage::<D>::new(&path).map(|_| ()));
            set_fs_callback(None);
            r?.map_err(|e| Fail::new("recovery: open failed (crash image)", format!("{e:?}")))?;
            let second = second.borrow().clone();
            for (j, (d2, w2)) in second.iter().enumerate() {
                let p2 = write_image(&dir, &format!("dbl{i}-{j}"), d2, w2);
                check_recovered::<D>(&p2, expected, "crash during recovery").map_err(|mut f| {
                    f.detail = format!("{}\n{what}, second crash before recovery event {j}", f.detail);
                    f
                })?;
                out.double_checked += 1;
            }
        }
    }
    Ok(out)
}

fn c01_case_with(c: &CrashProgram, all_events: bool, double_crash: bool) -> CaseResult {
    let out = if c.mapped {
        c01_run::<FileStorageMemoryMapped>(c, all_events, double_crash)?
    } else {
        c01_run::<FileStorage>(c, all_events, double_crash)?
    };
    let mut ci = CaseInfo::default();
    ci.evals = out.images_checked + out.torn_checked + out.double_checked;
    ci.sub_nontrivial = out.nontrivial;
    ci.count("crash images recovered", out.images_checked);
    ci.count("torn log images recovered", out.torn_checked);
    ci.count("crash-during-recovery images recovered", out.double_checked);
    if out.stats.rewrote_same_region {
        ci.label("rewrote the same record twice in one transaction");
    }
    if out.stats.zero_length_write {
        ci.label("zero-length write");
    }
    if out.stats.shrink_then_grow {
        ci.label("shrink then grow in one transaction");
    }
    ci.label(format!("max nested depth {}", out.stats.max_depth));
    ci.label(if c.drop_unfinished { "dropped with unfinished transaction" } else { "clean close" });
    ci.label(if c.mapped { "FileStorageMemoryMapped" } else { "FileStorage" });
    Ok(ci)
}

fn crash_program(max_ops: usize) -> impl Strategy<Value = CrashProgram> {
    (any::<bool>(), prop::collection::vec(sop(true), 3..max_ops), any::<bool>()).prop_map(|(mapped, mut ops, drop_unfinished)| {
        // make sure there is something to rewrite
        ops.insert(0, SOp::Insert { len: 24, seed: 3 });
        ops.insert(1, SOp::Insert { len: 8, seed: 9 });
        CrashProgram { mapped, ops, drop_unfinished }
    })
}

pub fn c01(ctx: &mut Ctx) {
    ctx.level = "fault_enumeration".into();
    ctx.rule = "storage programs (insert, insert_at, replace, resize, move_at incl. zero size, remove, optimize) grouped into arbitrarily nested explicit transactions (depth <=3), ending in a clean close or a drop with unfinished transactions, on FileStorage and FileStorageMemoryMapped. A hook fires before every mutating file-system call of the data file and the recovery log; at each such event the engine copies both files (the crash image), recovers the image with the real open path and compares every live record, every dead index and the file length with the reference state of the last outermost commit before that event (commit point = the event that truncates the log); recovery is repeated (idempotence, empty log); for log appends the log is additionally cut inside the record being appended (torn images); thorough also crashes during recovery itself. Quick: all events for programs with <=80 events, else a stratified sample. evaluations = images recovered. Non-trivial: the image has a non-empty recovery log (recovery has work to do). Distinct = hash of the image bytes.".into();
    let thorough = ctx.tier == Tier::Thorough;
    let cases = ctx.tier.pick(1500, 8_000);
    let max_ops = ctx.tier.pick(14usize, 40usize);
    replay_saved::<CrashProgram, _>(ctx, "c01-crash", |c| c01_case_with(c, true, true));
    run_campaign(
        ctx,
        CampaignCfg { name: "c01-crash", cases, max_shrink_iters: 1500, max_restarts: 3 },
        move || crash_program(max_ops),
        move |c| c01_case_with(c, thorough, thorough),
    );
}

pub fn c01_replay(path: &str) -> i32 {
    replay_file::<CrashProgram, _>(path, |c| c01_case_with(c, true, true))
}
