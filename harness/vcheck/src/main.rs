fn main() {
    vcheck::main_entry()
}
