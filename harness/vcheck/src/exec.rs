//! Executing resolved queries on a real database, comparing with `RefDb` predictions, and the
//! canonical dump of a real database obtained through public queries only (DESIGN 2.3).
use crate::core::{Fail, catch};
use crate::model::*;
use crate::query::*;
use crate::val::{Val, key_pool, value_pool};
use agdb::{DbError, DbImpl, QueryResult, StorageData};
use serde::{Deserialize, Serialize};
use std::collections::{BTreeMap, BTreeSet};

#[derive(Clone, Debug, PartialEq, Eq, Serialize, Deserialize, Default)]
pub struct ElemDump {
    pub from: i64,
    pub to: i64,
    pub values: Vec<(Val, Val)>,
    /// for nodes: outgoing / incoming edges in traversal (connection) order
    pub out: Vec<i64>,
    pub inc: Vec<i64>,
    pub counts: (u64, u64, u64),
    pub alias: Option<String>,
}

#[derive(Clone, Debug, PartialEq, Eq, Serialize, Deserialize, Default)]
pub struct Dump {
    pub node_count: u64,
    pub elements: BTreeMap<i64, ElemDump>,
    pub aliases: BTreeMap<String, i64>,
    /// indexed key -> (count from listing, value -> sorted ids)
    pub indexes: BTreeMap<Val, (u64, BTreeMap<Val, Vec<i64>>)>,
}

impl Dump {
    /// Normal form for order-insensitive comparison: property order within an element and edge
    /// order within a node are forgotten (C13).
    pub fn normalized(&self) -> Dump {
        let mut d = self.clone();
        for e in d.elements.values_mut() {
            e.values.sort();
            e.out.sort();
            e.inc.sort();
            if e.from > 0 || e.to > 0 {
                // edge endpoints stay
            } else {
                // a node's from/to report the *first* edge, which depends on edge order
                e.from = 0;
                e.to = 0;
            }
        }
        d
    }

    pub fn diff(&self, other: &Dump) -> String {
        let mut out = vec![];
        if self.node_count != other.node_count {
            out.push(format!("node_count {} vs {}", self.node_count, other.node_count));
        }
        let keys: BTreeSet<i64> = self.elements.keys().chain(other.elements.keys()).cloned().collect();
        for k in keys {
            match (self.elements.get(&k), other.elements.get(&k)) {
                (Some(a), Some(b)) if a != b => out.push(format!("element {k}: {a:?} vs {b:?}")),
                (Some(_), None) => out.push(format!("element {k} only in left")),
                (None, Some(_)) => out.push(format!("element {k} only in right")),
                _ => {}
            }
        }
        if self.aliases != other.aliases {
            out.push(format!("aliases {:?} vs {:?}", self.aliases, other.aliases));
        }
        if self.indexes != other.indexes {
            out.push(format!("indexes {:?} vs {:?}", self.indexes, other.indexes));
        }
        out.join("; ")
    }

    /// which section differs first (for signatures)
    pub fn diff_section(&self, other: &Dump) -> &'static str {
        if self.node_count != other.node_count {
            "node_count"
        } else if self.elements.keys().collect::<Vec<_>>() != other.elements.keys().collect::<Vec<_>>() {
            "element set"
        } else if self.elements != other.elements {
            let mut s = "elements";
            for (k, a) in &self.elements {
                let b = &other.elements[k];
                if a != b {
                    s = if (a.from, a.to) != (b.from, b.to) {
                        "endpoints"
                    } else if a.values != b.values {
                        "values"
                    } else if a.alias != b.alias {
                        "per-node alias"
                    } else if a.counts != b.counts {
                        "edge counts"
                    } else {
                        "edge lists"
                    };
                    break;
                }
            }
            s
        } else if self.aliases != other.aliases {
            "aliases"
        } else if self.indexes != other.indexes {
            "indexes"
        } else {
            "none"
        }
    }
}

fn err_text(e: &DbError) -> String {
    format!("{e:?}")
}

/// How the dump reacts to query errors.
#[derive(Clone, Copy, PartialEq)]
pub enum DumpMode {
    /// every query of the dump must succeed (C02, C05 ...)
    Strict,
    /// errors are tolerated and recorded as absent data (C07)
    Lenient,
}

/// Canonical dump of a real database through public queries only.
pub fn dump_db<S: StorageData>(db: &DbImpl<S>, extra_index_values: &[Val], mode: DumpMode) -> Result<Dump, Fail> {
    dump_with(&|c: &CQuery| run_read(db, c).map_err(|e| format!("{e:?}")), extra_index_values, mode)
}

/// The canonical dump through any read-only query executor (a local database or the server's
/// exec endpoint).
pub fn dump_with(run: &dyn Fn(&CQuery) -> Result<QueryResult, String>, extra_index_values: &[Val], mode: DumpMode) -> Result<Dump, Fail> {
    let mut d = Dump::default();
    let q = |c: &CQuery| -> Result<Option<QueryResult>, Fail> {
        match run(c) {
            Ok(r) => Ok(Some(r)),
            Err(e) => {
                if mode == DumpMode::Lenient {
                    Ok(None)
                } else {
                    Err(Fail::new(
                        format!("dump: {} failed", c.kind()),
                        format!("dump query {c:?} failed: {e}"),
                    ))
                }
            }
        }
    };
    if let Some(r) = q(&CQuery::SelectNodeCount)? {
        d.node_count = r.result;
    }
    let ids: Vec<i64> = match q(&CQuery::Search(CSearch::elements()))? {
        Some(r) => r.elements.iter().map(|e| e.id.0).collect(),
        None => vec![],
    };
    for id in &ids {
        let mut e = ElemDump::default();
        if let Some(r) = q(&CQuery::SelectValues {
            ids: QIds::Ids(vec![QId::Id(*id)]),
            keys: vec![],
        })? {
            if let Some(el) = actual_elems(&r).into_iter().next() {
                e.from = el.from;
                e.to = el.to;
                e.values = el.values;
            }
        }
        if *id > 0 {
            let edge_only = |s: CSearch| {
                s.with(cond(CData::Distance(CountCmp::Le(1)))).with(cond(CData::Edge))
            };
            if let Some(r) = q(&CQuery::Search(edge_only(CSearch::from(QId::Id(*id)))))? {
                e.out = r.elements.iter().map(|x| x.id.0).collect();
            }
            if let Some(r) = q(&CQuery::Search(edge_only(CSearch::to(QId::Id(*id)))))? {
                e.inc = r.elements.iter().map(|x| x.id.0).collect();
            }
            let mut counts = [0u64; 3];
            for (i, (f, t)) in [(true, true), (true, false), (false, true)].iter().enumerate() {
                if let Some(r) = q(&CQuery::SelectEdgeCount {
                    ids: QIds::Ids(vec![QId::Id(*id)]),
                    from: *f,
                    to: *t,
                })? {
                    counts[i] = r.result;
                }
            }
            e.counts = (counts[0], counts[1], counts[2]);
            // per-node alias: Err iff none
            if let Ok(r) = run(&CQuery::SelectAliases(QIds::Ids(vec![QId::Id(*id)]))) {
                if let Some(el) = actual_elems(&r).into_iter().next() {
                    if let Some((_, Val::Str(a))) = el.values.first() {
                        e.alias = Some(a.clone());
                    }
                }
            }
        }
        d.elements.insert(*id, e);
    }
    if let Some(r) = q(&CQuery::SelectAllAliases)? {
        for el in actual_elems(&r) {
            if let Some((_, Val::Str(a))) = el.values.first() {
                d.aliases.insert(a.clone(), el.id);
            }
        }
    }
    if let Some(r) = q(&CQuery::SelectIndexes)? {
        let mut values_to_try: BTreeSet<Val> = value_pool().into_iter().collect();
        values_to_try.extend(extra_index_values.iter().cloned());
        for e in d.elements.values() {
            for (_, v) in &e.values {
                values_to_try.insert(v.clone());
            }
        }
        for el in actual_elems(&r) {
            for (k, n) in el.values {
                let n = match n {
                    Val::U64(n) => n,
                    _ => u64::MAX,
                };
                let mut per_value = BTreeMap::new();
                for v in &values_to_try {
                    if let Some(r) = q(&CQuery::Search(CSearch::index(k.clone(), v.clone())))? {
                        let mut ids: Vec<i64> = r.elements.iter().map(|e| e.id.0).collect();
                        ids.sort();
                        if !ids.is_empty() {
                            per_value.insert(v.clone(), ids);
                        }
                    }
                }
                d.indexes.insert(k, (n, per_value));
            }
        }
    }
    Ok(d)
}

/// The canonical dump in three round trips through a batch executor (the server's exec
/// endpoint). Index probes are restricted to values that survive JSON; a node's alias comes
/// from the alias listing.
pub fn dump_batched(run: &dyn Fn(&[CQuery]) -> Result<Vec<QueryResult>, String>) -> Result<Dump, Fail> {
    let fail = |stage: &str, e: String| Fail::new(format!("dump: {stage} failed"), e);
    let mut d = Dump::default();
    let r1 = run(&[CQuery::SelectNodeCount, CQuery::Search(CSearch::elements()), CQuery::SelectAllAliases, CQuery::SelectIndexes]).map_err(|e| fail("listing", e))?;
    if r1.len() != 4 {
        return Err(fail("listing", format!("{} results", r1.len())));
    }
    d.node_count = r1[0].result;
    let ids: Vec<i64> = r1[1].elements.iter().map(|e| e.id.0).collect();
    for el in actual_elems(&r1[2]) {
        if let Some((_, Val::Str(a))) = el.values.first() {
            d.aliases.insert(a.clone(), el.id);
        }
    }
    let edge_only = |s: CSearch| s.with(cond(CData::Distance(CountCmp::Le(1)))).with(cond(CData::Edge));
    let mut qs = vec![];
    for id in &ids {
        qs.push(CQuery::SelectValues { ids: QIds::Ids(vec![QId::Id(*id)]), keys: vec![] });
        if *id > 0 {
            qs.push(CQuery::Search(edge_only(CSearch::from(QId::Id(*id)))));
            qs.push(CQuery::Search(edge_only(CSearch::to(QId::Id(*id)))));
            for (f, t) in [(true, true), (true, false), (false, true)] {
                qs.push(CQuery::SelectEdgeCount { ids: QIds::Ids(vec![QId::Id(*id)]), from: f, to: t });
            }
        }
    }
    let r2 = if qs.is_empty() { vec![] } else { run(&qs).map_err(|e| fail("elements", e))? };
    if r2.len() != qs.len() {
        return Err(fail("elements", format!("{} results for {} queries", r2.len(), qs.len())));
    }
    let mut k = 0;
    for id in &ids {
        let mut e = ElemDump::default();
        if let Some(el) = actual_elems(&r2[k]).into_iter().next() {
            e.from = el.from;
            e.to = el.to;
            e.values = el.values;
        }
        k += 1;
        if *id > 0 {
            e.out = r2[k].elements.iter().map(|x| x.id.0).collect();
            e.inc = r2[k + 1].elements.iter().map(|x| x.id.0).collect();
            e.counts = (r2[k + 2].result, r2[k + 3].result, r2[k + 4].result);
            k += 5;
            e.alias = d.aliases.iter().find(|(_, v)| **v == *id).map(|(a, _)| a.clone());
        }
        d.elements.insert(*id, e);
    }
    let json_safe = |v: &Val| match v {
        Val::F64(b) => f64::from_bits(*b).is_finite(),
        Val::VF64(v) => v.iter().all(|b| f64::from_bits(*b).is_finite()),
        _ => true,
    };
    let mut values_to_try: BTreeSet<Val> = value_pool().into_iter().filter(json_safe).collect();
    for e in d.elements.values() {
        for (_, v) in &e.values {
            if json_safe(v) {
                values_to_try.insert(v.clone());
            }
        }
    }
    let mut probes = vec![];
    let mut keys = vec![];
    for el in actual_elems(&r1[3]) {
        for (key, n) in el.values {
            let n = match n {
                Val::U64(n) => n,
                _ => u64::MAX,
            };
            for v in &values_to_try {
                probes.push(CQuery::Search(CSearch::index(key.clone(), v.clone())));
            }
            keys.push((key, n));
        }
    }
    let r3 = if probes.is_empty() { vec![] } else { run(&probes).map_err(|e| fail("index probes", e))? };
    let mut k = 0;
    for (key, n) in keys {
        let mut per_value = BTreeMap::new();
        for v in &values_to_try {
            if let Some(r) = r3.get(k) {
                let mut ids: Vec<i64> = r.elements.iter().map(|e| e.id.0).collect();
                ids.sort();
                if !ids.is_empty() {
                    per_value.insert(v.clone(), ids);
                }
            }
            k += 1;
        }
        d.indexes.insert(key, (n, per_value));
    }
    Ok(d)
}

/// The same dump computed from the reference model.
pub fn dump_model(m: &RefDb) -> Dump {
    let mut d = Dump {
        node_count: m.nodes.len() as u64,
        ..Default::default()
    };
    for id in m.all_ids() {
        let mut e = ElemDump {
            from: m.first_out(id),
            to: m.first_in(id),
            values: m.vals(id),
            ..Default::default()
        };
        if let Some(n) = m.nodes.get(&id) {
            e.out = n.out.clone();
            e.inc = n.inc.clone();
            e.counts = ((n.out.len() + n.inc.len()) as u64, n.out.len() as u64, n.inc.len() as u64);
            e.alias = m.alias_of(id);
        }
        d.elements.insert(id, e);
    }
    d.aliases = m.aliases.clone();
    for k in &m.indexes {
        let mut per_value: BTreeMap<Val, Vec<i64>> = BTreeMap::new();
        let mut n = 0;
        for (id, vals) in &m.values {
            for (kk, v) in vals {
                if kk == k {
                    n += 1;
                    per_value.entry(v.clone()).or_default().push(*id);
                }
            }
        }
        for v in per_value.values_mut() {
            v.sort();
        }
        d.indexes.insert(k.clone(), (n, per_value));
    }
    d
}

/// Re-synchronise the order-sensitive parts of the model (edge order within a node, property
/// order within an element) from a real dump that already matched order-insensitively.
pub fn resync_order(m: &mut RefDb, real: &Dump) {
    for (id, e) in &real.elements {
        if let Some(n) = m.nodes.get_mut(id) {
            n.out = e.out.clone();
            n.inc = e.inc.clone();
        }
        if e.values.is_empty() {
            m.values.remove(id);
        } else {
            m.values.insert(*id, e.values.clone());
        }
    }
}

pub fn compare_result(kind: &str, q: &CQuery, pred: &Pred, actual: &Result<QueryResult, DbError>) -> Result<(), Fail> {
    match (pred, actual) {
        (Pred::Silent, _) => Ok(()),
        (Pred::Err(reason), Ok(r)) => Err(Fail::new(
            format!("{kind}: accepted although it must fail ({})", crate::core::strip_digits(reason_class(reason))),
            format!("query {q:?} expected Err({reason}) got Ok(result={}, elements={:?})", r.result, actual_elems(r)),
        )),
        (Pred::Err(_), Err(_)) => Ok(()),
        (Pred::Ok(exp), Err(e)) => Err(Fail::new(
            format!("{kind}: rejected although it must succeed"),
            format!("query {q:?} expected Ok({exp:?}) got Err({})", err_text(e)),
        )),
        (Pred::Ok(exp), Ok(r)) => {
            if exp.result != r.result {
                return Err(Fail::new(
                    format!("{kind}: result count mismatch"),
                    format!("query {q:?} expected result {} got {} (elements {:?})", exp.result, r.result, actual_elems(r)),
                ));
            }
            let mut a = actual_elems(r);
            let mut e = exp.elements.clone();
            if exp.values_unchecked {
                for x in a.iter_mut().chain(e.iter_mut()) {
                    x.values.clear();
                }
            }
            if exp.unordered {
                for x in a.iter_mut().chain(e.iter_mut()) {
                    x.values.sort();
                }
                a.sort();
                e.sort();
            }
            if a != e {
                let what = if a.len() != e.len() {
                    "element count"
                } else if a.iter().map(|x| x.id).collect::<Vec<_>>() != e.iter().map(|x| x.id).collect::<Vec<_>>() {
                    let mut ai: Vec<i64> = a.iter().map(|x| x.id).collect();
                    let mut ei: Vec<i64> = e.iter().map(|x| x.id).collect();
                    ai.sort();
                    ei.sort();
                    if ai == ei { "element order" } else { "element ids" }
                } else if a.iter().zip(&e).any(|(x, y)| (x.from, x.to) != (y.from, y.to)) {
                    "from/to"
                } else {
                    "values"
                };
                return Err(Fail::new(
                    format!("{kind}: {what} mismatch"),
                    format!("query {q:?}\n expected {e:?}\n got      {a:?}"),
                ));
            }
            Ok(())
        }
    }
}

fn reason_class(reason: &str) -> &str {
    // keep only the rule name, not the concrete id
    for key in [
        "empty alias",
        "alias on edge id",
        "unknown id",
        "index exists",
        "more aliases than values",
        "values must match",
        "multi values",
        "ids must match aliases",
        "is not a node",
        "given edge id",
        "given node id",
        "missing on explicit id",
        "has no alias",
        "unknown origin",
        "unknown destination",
        "index not found",
    ] {
        if reason.contains(key) {
            return key;
        }
    }
    reason
}

/// One executed query: resolve selectors, run on the real database (panics caught), apply to the
/// model, compare.
pub struct StepOutcome {
    pub resolved: CQuery,
    pub pred: Pred,
    pub ok: bool,
}

pub fn step<E: Exec>(model: &mut RefDb, db: &mut E, q: &CQuery) -> Result<StepOutcome, Fail> {
    let resolved = model.resolve(q);
    let kind = resolved.kind();
    let actual = catch(|| db.run(&resolved)).map_err(|mut f| {
        f.detail = format!("{} while executing {resolved:?}", f.detail);
        f
    })?;
    let (pred, adopt_errors) = model.apply(&resolved, actual.as_ref().ok());
    if let (Some(e), Ok(_)) = (adopt_errors.first(), &actual) {
        if !matches!(pred, Pred::Err(_)) {
            return Err(Fail::new(
                format!("{kind}: invalid new id ({})", crate::core::strip_digits(e)),
                format!("query {resolved:?}: {e}"),
            ));
        }
    }
    compare_result(kind, &resolved, &pred, &actual)?;
    Ok(StepOutcome {
        resolved,
        ok: actual.is_ok(),
        pred,
    })
}

pub fn index_probe_values() -> Vec<Val> {
    let mut v = value_pool();
    v.extend(key_pool());
    v
}

/// Compare the real database with the model. `exact`: order of properties and edges matters.
pub fn check_dump<S: StorageData>(model: &RefDb, db: &DbImpl<S>, exact: bool, context: &str) -> Result<Dump, Fail> {
    let real = catch(|| dump_db(db, &[], DumpMode::Strict))??;
    let exp = dump_model(model);
    let (a, b) = if exact {
        (real.clone(), exp)
    } else {
        (real.normalized(), exp.normalized())
    };
    if a != b {
        return Err(Fail::new(
            format!("state mismatch after {context}: {}", a.diff_section(&b)),
            format!("real vs model: {}", a.diff(&b)),
        ));
    }
    Ok(real)
}
