//! C05, C06, C12, C13, C19.
use crate::core::*;
use crate::exec::*;
use crate::hist::*;
use crate::model::*;
use crate::query::*;
use crate::val::*;
use crate::vgen::{self, Profile, Step};
use agdb::{Db, DbAny, DbError, DbFile, DbImpl, DbMemory, MemoryStorage, QueryResult, StorageData, StorageSlice};
use proptest::prelude::*;
use serde::{Deserialize, Serialize};
use std::sync::Arc;
use std::sync::atomic::{AtomicU64, Ordering};

fn harness_err(what: &str, e: impl std::fmt::Debug) -> Fail {
    Fail::new(format!("harness: {what}"), format!("{e:?}"))
}

// ---------------------------------------------------------------------------------------
// C12

#[derive(Clone, Debug, Serialize, Deserialize)]
pub struct ValueCase {
    /// pairs stored on one element; keys are made distinct by the interpreter
    pub pairs: Vec<(Val, Val)>,
}

fn distinct_pairs(pairs: &[(Val, Val)]) -> Vec<(Val, Val)> {
    let mut out: Vec<(Val, Val)> = vec![];
    for (k, v) in pairs {
        if !out.iter().any(|(kk, _)| kk == k) {
            out.push((k.clone(), v.clone()));
        }
    }
    out
}

fn check_roundtrip<S: StorageData>(db: &DbImpl<S>, id: i64, pairs: &[(Val, Val)], stage: &str) -> Result<(), Fail> {
    let r = catch(|| run_read(db, &CQuery::SelectValues { ids: QIds::Ids(vec![QId::Id(id)]), keys: vec![] }))?
        .map_err(|e| Fail::new(format!("value round trip: select failed ({stage})"), format!("{e:?}")))?;
    let got = actual_elems(&r).into_iter().next().map(|e| e.values).unwrap_or_default();
    if got != pairs {
        let what = if got.len() != pairs.len() {
            "number of pairs differs"
        } else if got.iter().zip(pairs).any(|(a, b)| a.0.variant() != b.0.variant() || a.1.variant() != b.1.variant()) {
            "value type differs"
        } else {
            "payload differs"
        };
        return Err(Fail::new(format!("value round trip: {what} ({stage})"), format!("stored {pairs:?}\n read   {got:?}")));
    }
    // selecting by each key finds the pair
    for (k, v) in pairs {
        let r = catch(|| run_read(db, &CQuery::SelectValues { ids: QIds::Ids(vec![QId::Id(id)]), keys: vec![k.clone()] }))?
            .map_err(|e| Fail::new(format!("value round trip: select by key failed ({stage})"), format!("key {k:?}: {e:?}")))?;
        let got = actual_elems(&r).into_iter().next().map(|e| e.values).unwrap_or_default();
        if got != vec![(k.clone(), v.clone())] {
            return Err(Fail::new(format!("value round trip: select by key returns other data ({stage})"), format!("key {k:?} expected {v:?} got {got:?}")));
        }
    }
    Ok(())
}

fn insert_pairs<S: StorageData>(db: &mut DbImpl<S>, pairs: &[(Val, Val)]) -> Result<i64, Fail> {
    // a neighbour element before and after, so that the element under test is not alone
    let q = CQuery::InsertNodes {
        count: 0,
        values: QVals::Multi(vec![vec![(Val::Str("n".into()), Val::I64(1))], pairs.to_vec(), vec![(Val::Str("n".into()), Val::I64(2))]]),
        aliases: vec![],
        ids: QIds::Ids(vec![]),
    };
    let r = catch(|| db.run(&q))?.map_err(|e| Fail::new("value round trip: insert failed", format!("{e:?}")))?;
    Ok(r.elements[1].id.0)
}

fn c12_case(c: &ValueCase) -> CaseResult {
    let pairs = distinct_pairs(&c.pairs);
    let dir = TempDir::new("c12");
    let mut ci = CaseInfo::default();
    // memory
    {
        let mut db = DbMemory::new("c12").map_err(|e| harness_err("DbMemory::new", e))?;
        let id = insert_pairs(&mut db, &pairs)?;
        check_roundtrip(&db, id, &pairs, "DbMemory")?;
        let f = dir.file("mem.bak");
        db.backup(&f).map_err(|e| Fail::new("value round trip: backup failed", format!("{e:?}")))?;
        let db2 = catch(|| DbMemory::new(&f))?.map_err(|e| Fail::new("value round trip: reload of memory backup failed", format!("{e:?}")))?;
        check_roundtrip(&db2, id, &pairs, "DbMemory after backup+reload")?;
    }
    // memory mapped
    {
        let f = dir.file("mapped.agdb");
        let id;
        {
            let mut db = Db::new(&f).map_err(|e| harness_err("Db::new", e))?;
            id = insert_pairs(&mut db, &pairs)?;
            check_roundtrip(&db, id, &pairs, "Db")?;
        }
        let db = catch(|| Db::new(&f))?.map_err(|e| Fail::new("value round trip: reopen failed", format!("{e:?}")))?;
        check_roundtrip(&db, id, &pairs, "Db after reopen")?;
        drop(db);
        let db = catch(|| DbFile::new(&f))?.map_err(|e| Fail::new("value round trip: reopen failed", format!("{e:?}")))?;
        check_roundtrip(&db, id, &pairs, "Db reopened as DbFile")?;
    }
    // file
    {
        let f = dir.file("file.agdb");
        let id;
        {
            let mut db = DbFile::new(&f).map_err(|e| harness_err("DbFile::new", e))?;
            id = insert_pairs(&mut db, &pairs)?;
            check_roundtrip(&db, id, &pairs, "DbFile")?;
        }
        let db = catch(|| DbFile::new(&f))?.map_err(|e| Fail::new("value round trip: reopen failed", format!("{e:?}")))?;
        check_roundtrip(&db, id, &pairs, "DbFile after reopen")?;
    }
    ci.evals = pairs.len() as u64;
    for (k, v) in &pairs {
        if k.is_boundary() || v.is_boundary() {
            ci.sub_nontrivial.push(hash_json(&(k, v)));
        }
        ci.count(format!("value type {}", v.variant()), 1);
        ci.count(format!("key type {}", k.variant()), 1);
        for x in [k, v] {
            if let Val::Str(s) = x {
                if (14..=17).contains(&s.len()) {
                    ci.count(format!("string of {} bytes", s.len()), 1);
                }
            }
            if let Val::Bytes(s) = x {
                if (14..=17).contains(&s.len()) {
                    ci.count(format!("bytes of {} bytes", s.len()), 1);
                }
            }
        }
    }
    Ok(ci)
}

pub fn c12(ctx: &mut Ctx) {
    ctx.rule = "elements carrying 1-6 (key, value) pairs drawn from the full value strategy (all nine types, lengths {0,1,7,8,14,15,16,17,31,32,33,40} U 0..40 U occasionally 200-5000, ASCII / 2- / 3- / 4-byte UTF-8 and embedded NUL, extreme integers, floats by bit pattern incl. NaN payloads, signed zeros, subnormals) used both as key and as value, stored on DbMemory, Db and DbFile; read back (all values and by each key) directly, after drop+reopen with the same and the other file variant, and after backup+reload of the memory variant; compared bit for bit. Thorough adds the exhaustive grid length 0..40 x {ASCII, 2-, 3-, 4-byte fill} for strings and 0..40 for bytes. evaluations = pairs checked. Non-trivial: key or value has byte length 14..17 or 0, or is a NaN / -0.0 / subnormal float, or an empty vector. Distinct = hash of the pair.".into();
    let cases = ctx.tier.pick(20_000, 200_000);
    replay_saved::<ValueCase, _>(ctx, "c12-values", c12_case);
    if ctx.tier == Tier::Thorough && ctx.runs_once_here() {
        // exhaustive length grid
        let mut grid = vec![];
        for len in 0..=40usize {
            for kind in 0..4u8 {
                let s: String = match kind {
                    0 => "a".repeat(len),
                    1 => "é".repeat(len / 2) + &"x".repeat(len % 2),
                    2 => "€".repeat(len / 3) + &"x".repeat(len % 3),
                    _ => "😀".repeat(len / 4) + &"x".repeat(len % 4),
                };
                grid.push(ValueCase { pairs: vec![(Val::Str(format!("k{len}-{kind}")), Val::Str(s.clone())), (Val::Str(s), Val::I64(len as i64))] });
            }
            let b: Vec<u8> = (0..len).map(|i| (i * 37 % 251) as u8).collect();
            grid.push(ValueCase { pairs: vec![(Val::Str(format!("b{len}")), Val::Bytes(b.clone())), (Val::Bytes(b), Val::U64(len as u64))] });
        }
        for g in &grid {
            match c12_case(g) {
                Ok(info) => ctx.absorb(hash_json(g), &info),
                Err(f) => {
                    ctx.evaluations += 1;
                    ctx.record_failure("c12-values", g, &f);
                }
            }
        }
        ctx.label("exhaustive length grid cases", grid.len() as u64);
    }
    run_campaign(
        ctx,
        CampaignCfg { name: "c12-values", cases, max_shrink_iters: 2000, max_restarts: 3 },
        || prop::collection::vec((any_val(), any_val()), 1..=6).prop_map(|pairs| ValueCase { pairs }),
        c12_case,
    );
}

pub fn c12_replay(path: &str) -> i32 {
    replay_file::<ValueCase, _>(path, c12_case)
}

// ---------------------------------------------------------------------------------------
// C13

/// queries constructed to fail part-way: some work first, then an invalid reference
fn partial_fail_query(p: &Profile) -> BoxedStrategy<CQuery> {
    let bad = prop_oneof![(0u8..3, any::<bool>()).prop_map(|(k, n)| QId::Missing(k, n)), any::<u16>().prop_map(QId::SelRemoved)];
    let p = p.clone();
    prop_oneof![
        // multi values whose j-th id is missing
        (prop::collection::vec(vgen::elem_ref(&p), 1..4), bad.clone(), vgen::kv_list(&p, 4)).prop_map(|(mut ids, b, kvs)| {
            ids.push(b);
            CQuery::InsertValues { ids: QIds::Ids(ids), values: QVals::Single(kvs) }
        }),
        // alias list with an empty alias / a missing id at position j
        (prop::collection::vec((any::<u16>().prop_map(QId::SelNode), (0usize..6).prop_map(|i| alias_pool()[i].clone())), 1..4), any::<bool>(), bad.clone()).prop_map(|(pairs, empty, b)| {
            let mut ids: Vec<QId> = pairs.iter().map(|(i, _)| i.clone()).collect();
            let mut aliases: Vec<String> = pairs.iter().map(|(_, a)| a.clone()).collect();
            if empty {
                ids.push(QId::SelNode(7));
                aliases.push(String::new());
            } else {
                ids.push(b);
                aliases.push("c".into());
            }
            CQuery::InsertAliases { ids: QIds::Ids(ids), aliases }
        }),
        // remove values whose last id is missing
        (prop::collection::vec(vgen::elem_ref(&p), 1..4), bad.clone(), vgen::distinct_keys(3)).prop_map(|(mut ids, b, keys)| {
            ids.push(b);
            CQuery::RemoveValues { ids: QIds::Ids(ids), keys }
        }),
        // new nodes, the last alias empty
        (prop::collection::vec((0usize..6).prop_map(|i| alias_pool()[i].clone()), 1..3), vgen::kv_list(&p, 3)).prop_map(|(mut aliases, kvs)| {
            aliases.push(String::new());
            CQuery::InsertNodes { count: 0, values: QVals::Single(kvs), aliases, ids: QIds::Ids(vec![]) }
        }),
        // insert-or-update of nodes, last alias empty
        (prop::collection::vec(any::<u16>().prop_map(QId::SelNode), 2..4), vgen::kv_list(&p, 3)).prop_map(|(ids, kvs)| {
            let mut aliases: Vec<String> = (0..ids.len() - 1).map(|i| alias_pool()[i % 6].clone()).collect();
            aliases.push(String::new());
            CQuery::InsertNodes { count: 0, values: QVals::Single(kvs), aliases, ids: QIds::Ids(ids) }
        }),
    ]
    .boxed()
}

#[derive(Clone, Debug, Serialize, Deserialize)]
pub struct RollbackCase {
    pub prefix: Vec<Step>,
    pub unit: Step,
    pub suffix: Vec<Step>,
}

fn c13_case(c: &RollbackCase) -> CaseResult {
    let mut model = RefDb::default();
    let mut db = DbMemory::new("c13").map_err(|e| harness_err("DbMemory::new", e))?;
    let mut info = HistInfo::default();
    let opts = HistOpts { dump_every: 0, check_after_failure: true };
    run_history(&mut model, &mut db, &c.prefix, &opts, &mut info)?;
    let before = catch(|| dump_db(&db, &[], DumpMode::Strict))??;
    let mut uinfo = HistInfo::default();
    let muts_before = model.stats.mutations;
    let failed_before = model.stats.last_failed_mutations;
    let _ = failed_before;
    let r = run_step(&mut model, &mut db, &c.unit, &mut uinfo).map_err(|mut f| {
        f.detail = format!("{}\nunit {:?}\ntrace:\n{}", f.detail, c.unit, uinfo.trace.join("\n"));
        f
    })?;
    let mut ci = CaseInfo::default();
    match r {
        StepResult::Ok => {
            // the unit did not fail: an ordinary step, checked like any other
            check_dump(&model, &db, true, "successful unit")?;
            ci.label("unit succeeded");
            let _ = muts_before;
        }
        StepResult::Failed { mutations_before } => {
            let after = catch(|| dump_db(&db, &[], DumpMode::Strict))??;
            let (a, b) = (before.normalized(), after.normalized());
            if a != b {
                let kinds = failing_unit_kinds(&c.unit);
                return Err(Fail::new(
                    format!("failed unit left an effect: {} [{}]", b.diff_section(&a), kinds),
                    format!("before vs after: {}\nunit {:?}\ntrace:\n{}", a.diff(&b), c.unit, uinfo.trace.join("\n")),
                ));
            }
            // the model never saw the failed unit; adopt the (possibly reordered) real order
            let m2 = dump_model(&model).normalized();
            if m2 != b {
                return Err(Fail::new(
                    format!("state differs from model after failed unit: {}", b.diff_section(&m2)),
                    format!("real vs model: {}", b.diff(&m2)),
                ));
            }
            resync_order(&mut model, &after);
            let done = mutations_before.max(model.stats.last_failed_mutations as usize);
            ci.count("mutations executed before the error", done as u64);
            if done >= 2 {
                ci.nontrivial = true;
                ci.label("failed unit had >=2 successful mutations before the error");
            }
            match &c.unit {
                Step::Tx { .. } => ci.label("failed transaction"),
                Step::Q(_) => ci.label("single query failing part-way"),
            }
        }
    }
    // afterwards the database must behave like the model that never saw the failed unit
    run_history(&mut model, &mut db, &c.suffix, &HistOpts { dump_every: 1, check_after_failure: true }, &mut info)?;
    info.export(&mut ci);
    uinfo.export(&mut ci);
    Ok(ci)
}

fn failing_unit_kinds(u: &Step) -> String {
    let mut kinds: Vec<&'static str> = match u {
        Step::Q(q) => vec![q.kind()],
        Step::Tx { queries, .. } => queries.iter().map(|q| q.kind()).collect(),
    };
    kinds.sort();
    kinds.dedup();
    kinds.join(",")
}

pub fn c13(ctx: &mut Ctx) {
    ctx.rule = "a generated prefix history (state with values, aliases, edges, indexes), then one unit that fails: a mutable transaction of 1-8 arbitrary mutating queries (weighted towards value replacement, alias re-assignment and stealing, node removal with edges and values, index create/remove with populated data, insert-or-update through ids) whose closure returns Err after query k (every k) or which hits a failing query, OR a single query constructed to fail part-way (values / aliases / removals whose j-th id is missing, alias lists with an empty alias at position j); oracle: the call returned Err, the order-insensitive canonical dump before == after, and a generated suffix history conforms to the model that never saw the failed unit. Non-trivial: the failed unit had executed >=2 successful mutations before the error. Distinct = hash of the case.".into();
    let cases = ctx.tier.pick(60_000, 600_000);
    let mut p = Profile::general();
    p.w_insert_index = 4;
    p.w_remove_index = 2;
    p.w_insert_aliases = 10;
    p.w_insert_values = 20;
    p.w_insert_nodes_ids = 6;
    p.w_insert_edges_ids = 4;
    p.w_remove = 10;
    p.w_reads = 0;
    p.invalid_pct = 4;
    let p2 = p.clone();
    let mk = move || {
        let p = p2.clone();
        let mut p_tx = p.clone();
        p_tx.invalid_pct = 2;
        let unit = prop_oneof![
            3 => (prop::collection::vec(vgen::q_mut(&p_tx), 1..=8), 0u8..9).prop_map(|(queries, k)| {
                let k = (k as usize).min(queries.len()) as u8;
                Step::Tx { queries, fail_after: Some(k) }
            }),
            2 => partial_fail_query(&p).prop_map(Step::Q),
            1 => (prop::collection::vec(vgen::q_mut(&p_tx), 1..=5), partial_fail_query(&p)).prop_map(|(mut queries, bad)| {
                queries.push(bad);
                Step::Tx { queries, fail_after: None }
            }),
        ];
        (vgen::history(&p, 5, 40), unit, prop::collection::vec(vgen::step(&p), 0..10)).prop_map(|(prefix, unit, suffix)| RollbackCase { prefix, unit, suffix })
    };
    replay_saved::<RollbackCase, _>(ctx, "c13-rollback", c13_case);
    run_campaign(ctx, CampaignCfg { name: "c13-rollback", cases, max_shrink_iters: 4000, max_restarts: 3 }, mk, c13_case);
}

pub fn c13_replay(path: &str) -> i32 {
    replay_file::<RollbackCase, _>(path, c13_case)
}

// ---------------------------------------------------------------------------------------
// C05

#[derive(Clone, Copy, Debug, Serialize, Deserialize, PartialEq, Eq, Hash)]
pub enum Maint {
    ReopenSame,
    ReopenOther,
    Optimize,
    Shrink,
    BackupOpen,
    Copy,
    Rename,
}

#[derive(Clone, Copy, Debug, Serialize, Deserialize, PartialEq, Eq, Hash)]
pub enum Variant {
    Mapped,
    File,
    Memory,
}

#[derive(Clone, Debug, Serialize, Deserialize)]
pub struct MaintCase {
    pub variant: Variant,
    pub history: Vec<Step>,
    pub maint1: Vec<Maint>,
    pub more: Vec<Step>,
    pub maint2: Vec<Maint>,
    pub tail: Vec<Step>,
}

pub enum AnyDb {
    Mapped(Db),
    File(DbFile),
    Memory(DbMemory),
}

macro_rules! with_db {
    ($any:expr, $db:ident => $body:expr) => {
        match $any {
            AnyDb::Mapped($db) => $body,
            AnyDb::File($db) => $body,
            AnyDb::Memory($db) => $body,
        }
    };
}

/// canonical dump + result order of every search algorithm from every node
#[derive(PartialEq, Debug, Clone)]
pub struct ExtDump {
    pub dump: Dump,
    pub searches: Vec<(i64, u8, Vec<i64>)>,
}

pub fn ext_dump<S: StorageData>(db: &DbImpl<S>) -> Result<ExtDump, Fail> {
    let dump = catch(|| dump_db(db, &[], DumpMode::Strict))??;
    let mut searches = vec![];
    for id in dump.elements.keys() {
        for k in 0..4u8 {
            let mut s = if k & 1 == 0 { CSearch::from(QId::Id(*id)) } else { CSearch::to(QId::Id(*id)) };
            if k & 2 != 0 {
                s.algo = Algo::Dfs;
            }
            let r = catch(|| run_read(db, &CQuery::Search(s.clone())))?.map_err(|e| Fail::new("dump: search failed", format!("{s:?}: {e:?}")))?;
            searches.push((*id, k, r.elements.iter().map(|e| e.id.0).collect()));
        }
    }
    Ok(ExtDump { dump, searches })
}

fn apply_maint(db: AnyDb, m: Maint, dir: &TempDir, name: &mut String, counter: &mut u32) -> Result<AnyDb, Fail> {
    *counter += 1;
    let fresh = dir.file(&format!("db{}.agdb", *counter));
    let fail = |what: &str, e: DbError| Fail::new(format!("maintenance: {m:?} failed ({what})"), format!("{e:?}"));
    Ok(match (db, m) {
        (AnyDb::Memory(db), Maint::ReopenSame | Maint::ReopenOther | Maint::BackupOpen) => {
            // the in-memory variant persists only through backup + DbMemory::new(file)
            catch(|| db.backup(&fresh))?.map_err(|e| fail("backup", e))?;
            drop(db);
            *name = fresh.clone();
            AnyDb::Memory(catch(|| DbMemory::new(&fresh))?.map_err(|e| fail("reload", e))?)
        }
        (AnyDb::Mapped(db), Maint::ReopenSame) => {
            drop(db);
            AnyDb::Mapped(catch(|| Db::new(name))?.map_err(|e| fail("reopen", e))?)
        }
        (AnyDb::File(db), Maint::ReopenSame) => {
            drop(db);
            AnyDb::File(catch(|| DbFile::new(name))?.map_err(|e| fail("reopen", e))?)
        }
        (AnyDb::Mapped(db), Maint::ReopenOther) => {
            drop(db);
            AnyDb::File(catch(|| DbFile::new(name))?.map_err(|e| fail("reopen as DbFile", e))?)
        }
        (AnyDb::File(db), Maint::ReopenOther) => {
            drop(db);
            AnyDb::Mapped(catch(|| Db::new(name))?.map_err(|e| fail("reopen as Db", e))?)
        }
        (mut db, Maint::Optimize) => {
            with_db!(&mut db, d => catch(|| d.optimize_storage())?.map_err(|e| fail("optimize_storage", e))?);
            db
        }
        (mut db, Maint::Shrink) => {
            with_db!(&mut db, d => catch(|| d.shrink_to_fit())?.map_err(|e| fail("shrink_to_fit", e))?);
            db
        }
        (AnyDb::Mapped(db), Maint::BackupOpen) => {
            catch(|| db.backup(&fresh))?.map_err(|e| fail("backup", e))?;
            drop(db);
            *name = fresh.clone();
            AnyDb::Mapped(catch(|| Db::new(&fresh))?.map_err(|e| fail("open backup", e))?)
        }
        (AnyDb::File(db), Maint::BackupOpen) => {
            catch(|| db.backup(&fresh))?.map_err(|e| fail("backup", e))?;
            drop(db);
            *name = fresh.clone();
            AnyDb::File(catch(|| DbFile::new(&fresh))?.map_err(|e| fail("open backup", e))?)
        }
        (AnyDb::Mapped(db), Maint::Copy) => {
            let c = catch(|| db.copy(&fresh))?.map_err(|e| fail("copy", e))?;
            drop(db);
            *name = fresh.clone();
            AnyDb::Mapped(c)
        }
        (AnyDb::File(db), Maint::Copy) => {
            let c = catch(|| db.copy(&fresh))?.map_err(|e| fail("copy", e))?;
            drop(db);
            *name = fresh.clone();
            AnyDb::File(c)
        }
        (AnyDb::Memory(db), Maint::Copy) => {
            let c = catch(|| db.copy(&fresh))?.map_err(|e| fail("copy", e))?;
            drop(db);
            AnyDb::Memory(c)
        }
        (mut db, Maint::Rename) => {
            with_db!(&mut db, d => catch(|| d.rename(&fresh))?.map_err(|e| fail("rename", e))?);
            if !matches!(db, AnyDb::Memory(_)) {
                *name = fresh.clone();
            }
            db
        }
    })
}

fn c05_case(c: &MaintCase) -> CaseResult {
    let dir = TempDir::new("c05");
    let mut name = dir.file("db0.agdb");
    let mut counter = 0u32;
    let mut db = match c.variant {
        Variant::Mapped => AnyDb::Mapped(Db::new(&name).map_err(|e| harness_err("Db::new", e))?),
        Variant::File => AnyDb::File(DbFile::new(&name).map_err(|e| harness_err("DbFile::new", e))?),
        Variant::Memory => AnyDb::Memory(DbMemory::new("c05-mem").map_err(|e| harness_err("DbMemory::new", e))?),
    };
    let mut model = RefDb::default();
    let mut info = HistInfo::default();
    let opts = HistOpts { dump_every: 0, check_after_failure: true };
    let mut ci = CaseInfo::default();
    let rounds: [(&Vec<Step>, &Vec<Maint>); 2] = [(&c.history, &c.maint1), (&c.more, &c.maint2)];
    let mut first_round_interesting = false;
    for (ri, (steps, maints)) in rounds.iter().enumerate() {
        with_db!(&mut db, d => run_history(&mut model, d, steps, &opts, &mut info))?;
        if ri == 0 {
            first_round_interesting = model.stats.slots_freed > 0 && !model.indexes.is_empty() && !model.aliases.is_empty();
        }
        for m in maints.iter() {
            let before = with_db!(&db, d => ext_dump(d))?;
            db = apply_maint(db, *m, &dir, &mut name, &mut counter)?;
            let after = with_db!(&db, d => ext_dump(d))?;
            if before != after {
                let what = if before.dump != after.dump { before.dump.diff_section(&after.dump) } else { "search result order" };
                return Err(Fail::new(
                    format!("maintenance {m:?} on {:?} changed the database: {what}", c.variant),
                    format!("before vs after: {}", before.dump.diff(&after.dump)),
                ));
            }
            ci.count(format!("maintenance {m:?}"), 1);
            ci.evals += 1;
        }
    }
    // further steps must conform to the model (catches divergent in-memory caches)
    with_db!(&mut db, d => run_history(&mut model, d, &c.tail, &HistOpts { dump_every: 1, check_after_failure: true }, &mut info))?;
    info.export(&mut ci);
    ci.nontrivial = first_round_interesting;
    ci.label(format!("variant {:?}", c.variant));
    Ok(ci)
}

pub fn c05(ctx: &mut Ctx) {
    ctx.rule = "a generated history (10-60 steps) on Db, DbFile or DbMemory, then a generated sequence of 1-4 maintenance operations from {drop+reopen same variant, drop+reopen as the other file-backed variant, optimize_storage, shrink_to_fit, backup then open the backup (memory: backup then DbMemory::new), copy (continue on the copy), rename}, more steps, a second maintenance round, and a tail of steps. Oracle (metamorphic): the exact canonical dump (ids, endpoints, property order, per-node edge order and counts, aliases, index contents) plus the result sequence of bfs/dfs from/to from every element is identical before and after each maintenance operation; all steps, including those after maintenance, conform to the reference model. evaluations = maintenance operations checked. Non-trivial: at the first maintenance round the history had >=1 removal and >=1 index and >=1 alias. Distinct = hash of the case.".into();
    let cases = ctx.tier.pick(4000, 40_000);
    let mk = || {
        let mut p = Profile::general();
        p.w_insert_index = 5;
        p.w_reads = 2;
        p.invalid_pct = 5;
        p.grow_shrink_pct = 25;
        let maint = || {
            prop::collection::vec(
                prop::sample::select(vec![Maint::ReopenSame, Maint::ReopenOther, Maint::Optimize, Maint::Shrink, Maint::BackupOpen, Maint::Copy, Maint::Rename]),
                1..=4,
            )
        };
        (
            prop::sample::select(vec![Variant::Mapped, Variant::File, Variant::Memory]),
            vgen::history(&p, 10, 60),
            maint(),
            prop::collection::vec(vgen::step(&p), 2..15),
            maint(),
            prop::collection::vec(vgen::step(&p), 2..10),
        )
            .prop_map(|(variant, history, maint1, more, maint2, tail)| MaintCase { variant, history, maint1, more, maint2, tail })
    };
    replay_saved::<MaintCase, _>(ctx, "c05-maintenance", c05_case);
    run_campaign(ctx, CampaignCfg { name: "c05-maintenance", cases, max_shrink_iters: 1500, max_restarts: 3 }, mk, c05_case);
}

pub fn c05_replay(path: &str) -> i32 {
    replay_file::<MaintCase, _>(path, c05_case)
}

// ---------------------------------------------------------------------------------------
// C06

fn same_result(a: &Result<QueryResult, DbError>, b: &Result<QueryResult, DbError>) -> bool {
    match (a, b) {
        (Ok(x), Ok(y)) => x == y,
        (Err(_), Err(_)) => true,
        _ => false,
    }
}

fn c06_case(steps: &Vec<Step>) -> CaseResult {
    let dir = TempDir::new("c06");
    let mut model = RefDb::default();
    let mut mem = DbMemory::new("c06").map_err(|e| harness_err("DbMemory::new", e))?;
    let mut file = DbFile::new(&dir.file("file.agdb")).map_err(|e| harness_err("DbFile::new", e))?;
    let mut mapped = Db::new(&dir.file("mapped.agdb")).map_err(|e| harness_err("Db::new", e))?;
    let mut any_mem = DbAny::new_memory("c06-any").map_err(|e| harness_err("DbAny::new_memory", e))?;
    let mut any_file = DbAny::new_file(&dir.file("anyfile.agdb")).map_err(|e| harness_err("DbAny::new_file", e))?;
    let mut any_mapped = DbAny::new_mapped(&dir.file("anymapped.agdb")).map_err(|e| harness_err("DbAny::new_mapped", e))?;
    let mut ci = CaseInfo::default();
    let mut failing = 0;
    let names = ["DbFile", "Db", "DbAny(memory)", "DbAny(file)", "DbAny(mapped)"];
    for (i, s) in steps.iter().enumerate() {
        // resolve against the model, which follows the memory variant
        let (queries, fail_after): (Vec<CQuery>, Option<u8>) = match s {
            Step::Q(q) => (vec![q.clone()], None),
            Step::Tx { queries, fail_after } => (queries.clone(), *fail_after),
        };
        let is_tx = matches!(s, Step::Tx { .. });
        if !is_tx {
            let resolved = model.resolve(&queries[0]);
            let r0 = catch(|| mem.run(&resolved))?;
            let (_, _) = model.apply(&resolved, r0.as_ref().ok());
            if r0.is_err() {
                failing += 1;
                // keep the model in step with the real state even if it mispredicted
            }
            let others: [Result<QueryResult, DbError>; 5] = [
                catch(|| file.run(&resolved))?,
                catch(|| mapped.run(&resolved))?,
                catch(|| any_mem.run(&resolved))?,
                catch(|| any_file.run(&resolved))?,
                catch(|| any_mapped.run(&resolved))?,
            ];
            for (k, r) in others.iter().enumerate() {
                if !same_result(&r0, r) {
                    let what = match (&r0, r) {
                        (Ok(_), Ok(_)) => "different result",
                        _ => "different success/failure",
                    };
                    return Err(Fail::new(
                        format!("variants disagree: {what} ({} vs DbMemory, {})", names[k], resolved.kind()),
                        format!("step {i} {resolved:?}\n DbMemory: {r0:?}\n {}: {r:?}", names[k]),
                    ));
                }
            }
            // if the model mispredicted acceptance, resynchronise it from the memory variant
            if let (Ok(_), true) = (&r0, false) {}
        } else {
            // transactions: run the same closure on every variant; inside, queries are resolved
            // against a private copy of the model
            let run_tx = |db: &mut dyn TxRunner, base: &RefDb| -> Result<(bool, Vec<String>, RefDb), Fail> { db.run_tx(base, &queries, fail_after) };
            let (ok0, trace0, m2) = run_tx(&mut mem, &model)?;
            let outs = [run_tx(&mut file, &model)?, run_tx(&mut mapped, &model)?, run_tx(&mut any_mem, &model)?, run_tx(&mut any_file, &model)?, run_tx(&mut any_mapped, &model)?];
            for (k, (ok, trace, _)) in outs.iter().enumerate() {
                if *ok != ok0 || *trace != trace0 {
                    return Err(Fail::new(
                        format!("variants disagree inside a transaction ({} vs DbMemory)", names[k]),
                        format!("step {i} {s:?}\n DbMemory: {ok0} {trace0:?}\n {}: {ok} {trace:?}", names[k]),
                    ));
                }
            }
            if ok0 {
                model = m2;
            } else {
                failing += 1;
            }
        }
    }
    // final exact dumps equal
    let d0 = ext_dump(&mem)?;
    let ds = [ext_dump(&file)?, ext_dump(&mapped)?, ext_dump(&any_mem)?, ext_dump(&any_file)?, ext_dump(&any_mapped)?];
    for (k, d) in ds.iter().enumerate() {
        if *d != d0 {
            return Err(Fail::new(
                format!("variants disagree: final state ({} vs DbMemory): {}", names[k], d0.dump.diff_section(&d.dump)),
                d0.dump.diff(&d.dump),
            ));
        }
    }
    // the model may have drifted if it mispredicted; resync is not needed for this check
    ci.evals = steps.len() as u64;
    ci.nontrivial = failing > 0 && model.stats.out_of_line_values > 0;
    if failing > 0 {
        ci.label("history contains a failing query");
    }
    if model.stats.out_of_line_values > 0 {
        ci.label("out-of-line value stored");
    }
    Ok(ci)
}

/// Runs a transaction on one variant, resolving selectors against a private model copy.
trait TxRunner {
    fn run_tx(&mut self, base: &RefDb, queries: &[CQuery], fail_after: Option<u8>) -> Result<(bool, Vec<String>, RefDb), Fail>;
}

impl<S: StorageData> TxRunner for DbImpl<S> {
    fn run_tx(&mut self, base: &RefDb, queries: &[CQuery], fail_after: Option<u8>) -> Result<(bool, Vec<String>, RefDb), Fail> {
        let mut m = base.clone();
        let mut trace = vec![];
        let r = catch(|| {
            self.transaction_mut(|t| -> Result<(), DbError> {
                for (i, q) in queries.iter().enumerate() {
                    if fail_after == Some(i as u8) {
                        return Err(db_err("abort"));
                    }
                    let resolved = m.resolve(q);
                    let r = t.run(&resolved);
                    m.apply(&resolved, r.as_ref().ok());
                    trace.push(format!("{resolved:?} => {:?}", r.as_ref().map_err(|_| "Err")));
                    r?;
                }
                if let Some(k) = fail_after {
                    if k as usize >= queries.len() {
                        return Err(db_err("abort at end"));
                    }
                }
                Ok(())
            })
        })?;
        Ok((r.is_ok(), trace, m))
    }
}

pub fn c06(ctx: &mut Ctx) {
    ctx.rule = "generated histories (20-120 steps incl. reads, failing queries and rolled-back transactions) run in lock-step on DbMemory, DbFile, Db, DbAny::new_memory, DbAny::new_file and DbAny::new_mapped. Oracle (differential): for every query all six return the same Ok(QueryResult) (exact equality, floats bitwise) or all return Err; the final extended dumps (canonical dump + every search order from every element) are equal. evaluations = steps executed on all six. Non-trivial: the history contains >=1 failing query and >=1 value stored out of line (>15 bytes). Distinct = hash of the history.".into();
    let cases = ctx.tier.pick(2000, 25_000);
    let (lo, hi) = ctx.tier.pick((20, 80), (20, 120));
    let mk = move || {
        let mut p = Profile::general();
        p.w_tx = 5;
        p.w_insert_index = 4;
        p.grow_shrink_pct = 8;
        vgen::history(&p, lo, hi)
    };
    replay_saved::<Vec<Step>, _>(ctx, "c06-differential", c06_case);
    run_campaign(ctx, CampaignCfg { name: "c06-differential", cases, max_shrink_iters: 1500, max_restarts: 3 }, mk, c06_case);
}

pub fn c06_replay(path: &str) -> i32 {
    replay_file::<Vec<Step>, _>(path, c06_case)
}

// ---------------------------------------------------------------------------------------
// C19

/// Public StorageData wrapper counting storage calls; once the per-query budget is exceeded
/// every call returns an error, so that any probe loop (which reads storage each iteration)
/// unwinds (DESIGN 2.6).
pub struct Counting {
    inner: MemoryStorage,
    calls: Arc<AtomicU64>,
    budget: Arc<AtomicU64>,
}

impl Counting {
    fn tick(&self) -> Result<(), DbError> {
        let n = self.calls.fetch_add(1, Ordering::Relaxed);
        if n > self.budget.load(Ordering::Relaxed) {
            return Err(DbError::storage(agdb::DbErrorType::NotAllowed, "verif: storage call budget exhausted"));
        }
        Ok(())
    }
}

impl StorageData for Counting {
    fn backup(&self, name: &str) -> Result<(), DbError> {
        self.inner.backup(name)
    }
    fn copy(&self, name: &str) -> Result<Self, DbError> {
        Ok(Counting { inner: self.inner.copy(name)?, calls: self.calls.clone(), budget: self.budget.clone() })
    }
    fn flush(&mut self) -> Result<(), DbError> {
        self.inner.flush()
    }
    fn len(&self) -> u64 {
        self.inner.len()
    }
    fn name(&self) -> &str {
        self.inner.name()
    }
    fn new(name: &str) -> Result<Self, DbError> {
        Ok(Counting { inner: MemoryStorage::new(name)?, calls: Arc::new(AtomicU64::new(0)), budget: Arc::new(AtomicU64::new(u64::MAX)) })
    }
    fn read(&'_ self, pos: u64, value_len: u64) -> Result<StorageSlice<'_>, DbError> {
        self.tick()?;
        self.inner.read(pos, value_len)
    }
    fn rename(&mut self, new_name: &str) -> Result<(), DbError> {
        self.inner.rename(new_name)
    }
    fn resize(&mut self, new_len: u64) -> Result<(), DbError> {
        self.tick()?;
        self.inner.resize(new_len)
    }
    fn write(&mut self, pos: u64, bytes: &[u8]) -> Result<(), DbError> {
        self.tick()?;
        self.inner.write(pos, bytes)
    }
}

#[derive(Clone, Debug, Serialize, Deserialize)]
pub enum CycleOp {
    /// insert alias n on node k
    Alias(u16, u8),
    RemoveAlias(u16),
    /// set indexed key to value n on node k
    IndexedValue(u16, u8),
    RemoveIndexedValue(u8),
    LookupAlias(u16),
    LookupIndex(u16),
    /// insert alias then remove it again, `count` times with consecutive names starting at n
    AliasCycles(u16, u8),
    /// replace the indexed value `count` times with consecutive values
    ValueCycles(u16, u8),
    NewNodeWithAlias(u16),
    RemoveNodeByAlias(u16),
}

#[derive(Clone, Debug, Serialize, Deserialize)]
pub struct CycleCase {
    pub distinct: u16,
    pub ops: Vec<CycleOp>,
}

const BUDGET: u64 = 1_000_000;

fn c19_case(c: &CycleCase) -> CaseResult {
    let data = Counting::new("c19").map_err(|e| harness_err("Counting::new", e))?;
    let calls = data.calls.clone();
    let budget = data.budget.clone();
    let mut db: DbImpl<Counting> = DbImpl::with_data(data).map_err(|e| harness_err("DbImpl::with_data", e))?;
    let nodes = 8u8;
    let setup = [
        CQuery::InsertNodes { count: nodes as u64, values: QVals::Single(vec![]), aliases: vec![], ids: QIds::Ids(vec![]) },
        CQuery::InsertIndex(Val::Str("idx".into())),
    ];
    for q in &setup {
        db.run(q).map_err(|e| harness_err("setup", e))?;
    }
    budget.store(BUDGET, Ordering::Relaxed);
    let mut max_ok = 0u64;
    let mut executed = 0u64;
    let d = c.distinct.max(1);
    let alias = |n: u16| format!("alias-{}", n % d);
    let mut aliases_cycled = std::collections::BTreeSet::new();
    let mut values_cycled = std::collections::BTreeSet::new();
    let mut run = |db: &mut DbImpl<Counting>, q: CQuery, executed: &mut u64, max_ok: &mut u64| -> Result<(), Fail> {
        calls.store(0, Ordering::Relaxed);
        let r = catch(|| db.run(&q))?;
        let used = calls.load(Ordering::Relaxed);
        *executed += 1;
        if used > BUDGET {
            return Err(Fail::new(
                format!("query does not terminate within the work budget ({})", q.kind()),
                format!("{q:?} used more than {BUDGET} storage calls after {executed} queries (largest terminating query so far: {max_ok} calls); result {:?}", r.map(|r| r.result)),
            ));
        }
        *max_ok = (*max_ok).max(used);
        Ok(())
    };
    for op in &c.ops {
        match op {
            CycleOp::Alias(n, k) => {
                aliases_cycled.insert(n % d);
                run(&mut db, CQuery::InsertAliases { ids: QIds::Ids(vec![QId::Id((*k % nodes) as i64 + 1)]), aliases: vec![alias(*n)] }, &mut executed, &mut max_ok)?
            }
            CycleOp::RemoveAlias(n) => run(&mut db, CQuery::RemoveAliases(vec![alias(*n)]), &mut executed, &mut max_ok)?,
            CycleOp::IndexedValue(n, k) => {
                values_cycled.insert(n % d);
                run(&mut db, CQuery::InsertValues { ids: QIds::Ids(vec![QId::Id((*k % nodes) as i64 + 1)]), values: QVals::Single(vec![(Val::Str("idx".into()), Val::U64((*n % d) as u64))]) }, &mut executed, &mut max_ok)?
            }
            CycleOp::RemoveIndexedValue(k) => run(&mut db, CQuery::RemoveValues { ids: QIds::Ids(vec![QId::Id((*k % nodes) as i64 + 1)]), keys: vec![Val::Str("idx".into())] }, &mut executed, &mut max_ok)?,
            CycleOp::LookupAlias(n) => run(&mut db, CQuery::SelectValues { ids: QIds::Ids(vec![QId::Alias(alias(*n))]), keys: vec![] }, &mut executed, &mut max_ok)?,
            CycleOp::LookupIndex(n) => run(&mut db, CQuery::Search(CSearch::index(Val::Str("idx".into()), Val::U64((*n % d) as u64))), &mut executed, &mut max_ok)?,
            CycleOp::AliasCycles(n, count) => {
                for i in 0..*count as u16 {
                    let a = alias(n.wrapping_add(i));
                    aliases_cycled.insert(n.wrapping_add(i) % d);
                    run(&mut db, CQuery::InsertAliases { ids: QIds::Ids(vec![QId::Id(1)]), aliases: vec![a.clone()] }, &mut executed, &mut max_ok)?;
                    run(&mut db, CQuery::RemoveAliases(vec![a]), &mut executed, &mut max_ok)?;
                }
            }
            CycleOp::ValueCycles(n, count) => {
                for i in 0..*count as u16 {
                    values_cycled.insert(n.wrapping_add(i) % d);
                    run(&mut db, CQuery::InsertValues { ids: QIds::Ids(vec![QId::Id(2)]), values: QVals::Single(vec![(Val::Str("idx".into()), Val::U64((n.wrapping_add(i) % d) as u64))]) }, &mut executed, &mut max_ok)?;
                }
            }
            CycleOp::NewNodeWithAlias(n) => run(&mut db, CQuery::InsertNodes { count: 0, values: QVals::Single(vec![]), aliases: vec![alias(*n)], ids: QIds::Ids(vec![]) }, &mut executed, &mut max_ok)?,
            CycleOp::RemoveNodeByAlias(n) => {
                // never remove the fixed nodes 1..=8
                let a = alias(*n);
                let r = db.run(&CQuery::SelectValues { ids: QIds::Ids(vec![QId::Alias(a.clone())]), keys: vec![] });
                if let Ok(r) = r {
                    if r.elements.first().map(|e| e.id.0 > nodes as i64).unwrap_or(false) {
                        run(&mut db, CQuery::Remove(QIds::Ids(vec![QId::Alias(a)])), &mut executed, &mut max_ok)?;
                    }
                }
            }
        }
    }
    let mut ci = CaseInfo::default();
    ci.evals = executed;
    ci.count("queries executed", executed);
    ci.count(format!("max storage calls of a terminating query <= 10^{}", (max_ok.max(1) as f64).log10().ceil() as u32), 1);
    if aliases_cycled.len() >= 64 {
        ci.label(">=64 distinct aliases cycled");
    }
    if values_cycled.len() >= 64 {
        ci.label(">=64 distinct indexed values cycled");
    }
    ci.nontrivial = aliases_cycled.len() >= 64 || values_cycled.len() >= 64;
    Ok(ci)
}

pub fn c19(ctx: &mut Ctx) {
    ctx.rule = "long histories (hundreds to thousands of queries) of insert/remove cycles over many distinct hashed keys: aliases (insert, remove, re-alias, new nodes with aliases, node removal) and values of an indexed key (insert, replace, remove), with the number of distinct keys swept over 1..300 so that the tombstone count passes the 64-slot minimum capacity and every rehash threshold, interleaved with lookups. Oracle: work budget, not wall clock - the database runs on a public StorageData wrapper that counts storage calls; every query gets 10^6 calls (the largest legitimate query of these histories needs < 10^4, reported in the labels) and a query that exhausts the budget is reported as non-terminating. evaluations = queries executed. Non-trivial: >=64 distinct keys were inserted and removed from one hashed collection. Distinct = hash of the case.".into();
    let cases = ctx.tier.pick(20_000, 60_000);
    let max_ops = ctx.tier.pick(120usize, 300usize);
    let mk = move || {
        let op = prop_oneof![
            3 => (any::<u16>(), any::<u8>()).prop_map(|(n, k)| CycleOp::Alias(n, k)),
            2 => any::<u16>().prop_map(CycleOp::RemoveAlias),
            3 => (any::<u16>(), any::<u8>()).prop_map(|(n, k)| CycleOp::IndexedValue(n, k)),
            1 => any::<u8>().prop_map(CycleOp::RemoveIndexedValue),
            1 => any::<u16>().prop_map(CycleOp::LookupAlias),
            1 => any::<u16>().prop_map(CycleOp::LookupIndex),
            4 => (any::<u16>(), 1u8..=100).prop_map(|(n, c)| CycleOp::AliasCycles(n, c)),
            4 => (any::<u16>(), 1u8..=100).prop_map(|(n, c)| CycleOp::ValueCycles(n, c)),
            1 => any::<u16>().prop_map(CycleOp::NewNodeWithAlias),
            1 => any::<u16>().prop_map(CycleOp::RemoveNodeByAlias),
        ];
        (prop_oneof![1 => 1u16..64, 3 => 64u16..300], prop::collection::vec(op, 10..max_ops)).prop_map(|(distinct, ops)| CycleCase { distinct, ops })
    };
    replay_saved::<CycleCase, _>(ctx, "c19-cycles", c19_case);
    run_campaign(ctx, CampaignCfg { name: "c19-cycles", cases, max_shrink_iters: 600, max_restarts: 3 }, mk, c19_case);
}

pub fn c19_replay(path: &str) -> i32 {
    replay_file::<CycleCase, _>(path, c19_case)
}
