//! C02 / C03: crash images of query histories on the file-backed database variants.
//! C32: injected storage write failures.
use crate::core::*;
use crate::exec::*;
use crate::hist::*;
use crate::model::*;
use crate::props_storage::wal_name;
use crate::query::*;
use crate::vgen::{self, Profile, Step};
use agdb::verif::{FsEvent, FsEventKind, set_fs_callback};
use agdb::{Db, DbError, DbFile, DbImpl, FileStorage, StorageData, StorageSlice};
use proptest::prelude::*;
use serde::{Deserialize, Serialize};
use std::cell::RefCell;
use std::rc::Rc;
use std::sync::Arc;
use std::sync::atomic::{AtomicI64, AtomicU64, Ordering};

#[derive(Clone, Debug, Serialize, Deserialize)]
pub struct CrashHist {
    pub mapped: bool,
    pub history: Vec<Step>,
}

#[derive(Clone, Copy, PartialEq)]
pub enum Mode {
    /// C02: every image opens with both file-backed variants and is fully readable
    Readable,
    /// C03: every image equals the state before or after the interrupted step
    Atomic,
}

struct Img {
    step: usize,
    kind: FsEventKind,
    data: Vec<u8>,
    wal: Vec<u8>,
    first_of_step: bool,
    commits_in_step_before: usize,
}

fn crash_profile() -> Profile {
    let mut p = Profile::general();
    p.grow_shrink_pct = 8;
    p.w_reads = 0;
    p.w_tx = 6;
    p.w_insert_index = 3;
    p.w_remove_index = 1;
    p.max_count = 12;
    p.invalid_pct = 5;
    p
}

enum FileDb {
    Mapped(Db),
    File(DbFile),
}

fn open_image(dir: &TempDir, tag: &str, img: &Img, mapped: bool) -> Result<FileDb, Fail> {
    let path = dir.file(&format!("{tag}.agdb"));
    std::fs::write(&path, &img.data).expect("write image");
    std::fs::write(wal_name(&path), &img.wal).expect("write image log");
    let which = if mapped { "Db::new" } else { "DbFile::new" };
    if mapped {
        catch(|| Db::new(&path))
            .map_err(|mut f| {
                f.sig = format!("crash image: {which} panics: {}", f.sig);
                f
            })?
            .map(FileDb::Mapped)
            .map_err(|e| Fail::new(format!("crash image: {which} fails"), format!("{e:?}")))
    } else {
        catch(|| DbFile::new(&path))
            .map_err(|mut f| {
                f.sig = format!("crash image: {which} panics: {}", f.sig);
                f
            })?
            .map(FileDb::File)
            .map_err(|e| Fail::new(format!("crash image: {which} fails"), format!("{e:?}")))
    }
}

fn dump_any(db: &FileDb) -> Result<Dump, Fail> {
    let r = match db {
        FileDb::Mapped(d) => catch(|| dump_db(d, &[], DumpMode::Strict)),
        FileDb::File(d) => catch(|| dump_db(d, &[], DumpMode::Strict)),
    };
    r.map_err(|mut f| {
        f.sig = format!("crash image: reading panics: {}", f.sig);
        f
    })?
    .map_err(|mut f| {
        f.sig = format!("crash image: not fully readable: {}", f.sig);
        f
    })
}

fn crash_hist_case(c: &CrashHist, mode: Mode, max_images: usize) -> CaseResult {
    let dir = TempDir::new("crash");
    let name = dir.file("db.agdb");
    let wal = wal_name(&name);
    let mut db = if c.mapped {
        FileDb::Mapped(Db::new(&name).map_err(|e| Fail::new("harness: Db::new", format!("{e:?}")))?)
    } else {
        FileDb::File(DbFile::new(&name).map_err(|e| Fail::new("harness: DbFile::new", format!("{e:?}")))?)
    };
    let images: Rc<RefCell<Vec<Img>>> = Rc::new(RefCell::new(vec![]));
    let current_step = Rc::new(RefCell::new(0usize));
    let commits_in_step = Rc::new(RefCell::new(0usize));
    let last_step_seen = Rc::new(RefCell::new(usize::MAX));
    {
        let (images, current_step, commits_in_step, last_step_seen) = (images.clone(), current_step.clone(), commits_in_step.clone(), last_step_seen.clone());
        let (name, wal) = (name.clone(), wal.clone());
        set_fs_callback(Some(Box::new(move |ev: &FsEvent| {
            let step = *current_step.borrow();
            let first = *last_step_seen.borrow() != step;
            if first {
                *last_step_seen.borrow_mut() = step;
                *commits_in_step.borrow_mut() = 0;
            }
            images.borrow_mut().push(Img {
                step,
                kind: ev.kind,
                data: std::fs::read(&name).unwrap_or_default(),
                wal: std::fs::read(&wal).unwrap_or_default(),
                first_of_step: first,
                commits_in_step_before: *commits_in_step.borrow(),
            });
            if ev.kind == FsEventKind::WalSetLen && ev.pos == 0 {
                *commits_in_step.borrow_mut() += 1;
            }
        })));
    }
    let mut model = RefDb::default();
    let mut info = HistInfo::default();
    let mut dumps: Vec<Dump> = vec![];
    let run = (|| -> Result<(), Fail> {
        dumps.push(dump_any(&db)?);
        for (i, s) in c.history.iter().enumerate() {
            *current_step.borrow_mut() = i;
            let r = match &mut db {
                FileDb::Mapped(d) => run_step(&mut model, d, s, &mut info),
                FileDb::File(d) => run_step(&mut model, d, s, &mut info),
            }
            .map_err(|mut f| {
                f.detail = format!("{}\nstep {i}: {s:?}", f.detail);
                f
            })?;
            let d = dump_any(&db)?;
            if let StepResult::Failed { .. } = r {
                // rolled back: the model keeps its state; adopt the (possibly reordered) real order
                let m = dump_model(&model);
                if m.normalized() != d.normalized() {
                    return Err(Fail::new(format!("failed unit left an effect: {}", d.normalized().diff_section(&m.normalized())), d.normalized().diff(&m.normalized())));
                }
                resync_order(&mut model, &d);
            }
            dumps.push(d);
        }
        Ok(())
    })();
    if let Err(f) = run {
        set_fs_callback(None);
        return Err(f);
    }
    let n = c.history.len();
    *current_step.borrow_mut() = n;
    drop(db); // defragmentation on drop; images taken during it must equal the final state
    set_fs_callback(None);
    let images = std::mem::take(&mut *images.borrow_mut());
    let total = images.len();
    // selection: all if few, otherwise first/last event of each step, every log clear and a spread
    let selected: Vec<usize> = if total <= max_images {
        (0..total).collect()
    } else {
        let mut s = std::collections::BTreeSet::new();
        for i in 0..total {
            let last = i + 1 == total || images[i + 1].step != images[i].step;
            if images[i].first_of_step || last || images[i].kind == FsEventKind::WalSetLen {
                s.insert(i);
            }
        }
        let mut v: Vec<usize> = s.into_iter().collect();
        // thin out deterministically if still too many
        if v.len() > max_images / 2 {
            let step = v.len().div_ceil(max_images / 2);
            v = v.into_iter().step_by(step).collect();
        }
        let spread = (total / (max_images / 2).max(1)).max(1);
        let mut s: std::collections::BTreeSet<usize> = v.into_iter().collect();
        for i in (0..total).step_by(spread) {
            s.insert(i);
        }
        s.into_iter().collect()
    };
    let mut ci = CaseInfo::default();
    info.export(&mut ci);
    for &k in &selected {
        let img = &images[k];
        let inside = !img.first_of_step;
        for mapped in [true, false] {
            let what = format!(
                "image before event {k}/{total} ({:?}) during step {} {}",
                img.kind,
                img.step,
                if img.step < n { format!("{:?}", c.history[img.step]) } else { "drop".to_string() }
            );
            let opened = open_image(&dir, &format!("img{k}-{mapped}"), img, mapped).map_err(|mut f| {
                f.detail = format!("{}\n{what}", f.detail);
                f
            })?;
            let d = dump_any(&opened).map_err(|mut f| {
                f.detail = format!("{}\n{what}", f.detail);
                f
            })?;
            drop(opened);
            ci.evals += 1;
            if mode == Mode::Atomic {
                let before = &dumps[img.step.min(dumps.len() - 1)];
                let after = &dumps[(img.step + 1).min(dumps.len() - 1)];
                if d != *before && d != *after {
                    let between = img.commits_in_step_before > 0;
                    let sec_b = d.diff_section(before);
                    let sec_a = d.diff_section(after);
                    let kind = if img.step < n {
                        match &c.history[img.step] {
                            Step::Q(q) => model_kind(q),
                            Step::Tx { .. } => "transaction",
                        }
                    } else {
                        "drop"
                    };
                    return Err(Fail::new(
                        format!(
                            "partial effect visible after a crash{} ({kind}): differs from before in {sec_b}, from after in {sec_a}",
                            if between { " between two internal commits of one step" } else { "" }
                        ),
                        format!("{what}\nvs before: {}\nvs after: {}", d.diff(before), d.diff(after)),
                    ));
                }
            }
        }
        if inside && !img.wal.is_empty() {
            ci.sub_nontrivial.push(stable_hash(&(&img.data, &img.wal)));
        }
        if img.commits_in_step_before > 0 && img.step < n {
            ci.count("images taken after an internal commit of the interrupted step", 1);
        }
        if img.step == n {
            ci.count("images taken during defragmentation on drop", 1);
        }
    }
    ci.count("crash images recovered (x2 openers)", selected.len() as u64);
    ci.count("file-system events in history", total as u64);
    if info.rolled_back_tx > 0 {
        ci.label("history has a rolled-back transaction");
    }
    if model.stats.ids_reused > 0 {
        ci.label("id reuse");
    }
    ci.label(if c.mapped { "Db" } else { "DbFile" });
    Ok(ci)
}

fn model_kind(q: &CQuery) -> &'static str {
    q.kind()
}

fn crash_hist(lo: usize, hi: usize) -> impl Strategy<Value = CrashHist> {
    (any::<bool>(), vgen::history(&crash_profile(), lo, hi)).prop_map(|(mapped, history)| CrashHist { mapped, history })
}

pub fn c02(ctx: &mut Ctx) {
    ctx.level = "fault_enumeration".into();
    ctx.rule = "histories of mutating queries (5-25 steps quick, <=50 thorough: node/edge/alias/value/index inserts, updates, removals, multi-element inserts that make collections grow and rehash, transactions incl. rolled-back ones) on Db and DbFile, with a final drop (defragmentation). A hook fires before every mutating file-system call of the data file and the recovery log; the engine copies both files at each event (quick: all events if <=150, else first/last event of every step, every log truncation and an even spread; thorough: <=600). Oracle: each image opens with BOTH Db::new and DbFile::new (Ok, no panic) and the full canonical dump (every element, property, alias, index) completes with every query Ok. evaluations = image x opener. Non-trivial: the image was taken inside a step (not at its first event) with a non-empty recovery log. Distinct = hash of the image bytes.".into();
    let cases = ctx.tier.pick(400, 1_500);
    let (lo, hi) = ctx.tier.pick((5, 25), (5, 50));
    let max_images = ctx.tier.pick(150, 600);
    replay_saved::<CrashHist, _>(ctx, "c02-crash", |c| crash_hist_case(c, Mode::Readable, 100_000));
    run_campaign(ctx, CampaignCfg { name: "c02-crash", cases, max_shrink_iters: 400, max_restarts: 2 }, move || crash_hist(lo, hi), move |c| crash_hist_case(c, Mode::Readable, max_images));
}

pub fn c02_replay(path: &str) -> i32 {
    replay_file::<CrashHist, _>(path, |c| crash_hist_case(c, Mode::Readable, 100_000))
}

pub fn c03(ctx: &mut Ctx) {
    ctx.level = "fault_enumeration".into();
    ctx.rule = "same engine and generator as C02 (histories of mutating queries and multi-query mutable transactions incl. ones whose closure returns Err after k queries, on Db and DbFile; crash image before every selected mutating file-system call). Oracle: the exact canonical dump of the reopened image (both openers) equals the exact dump of the live database taken before the interrupted step or the one taken after it; images between steps equal the dump after the previous step; images during the final defragmenting drop equal the final dump. evaluations = image x opener. Non-trivial: image taken inside a step with a non-empty recovery log; the label histogram reports how many images were taken after an internal commit of the interrupted step. Distinct = hash of the image bytes.".into();
    let cases = ctx.tier.pick(400, 1_500);
    let (lo, hi) = ctx.tier.pick((5, 25), (5, 50));
    let max_images = ctx.tier.pick(150, 600);
    replay_saved::<CrashHist, _>(ctx, "c03-crash", |c| crash_hist_case(c, Mode::Atomic, 100_000));
    run_campaign(ctx, CampaignCfg { name: "c03-crash", cases, max_shrink_iters: 400, max_restarts: 2 }, move || crash_hist(lo, hi), move |c| crash_hist_case(c, Mode::Atomic, max_images));
}

pub fn c03_replay(path: &str) -> i32 {
    replay_file::<CrashHist, _>(path, |c| crash_hist_case(c, Mode::Atomic, 100_000))
}

// ---------------------------------------------------------------------------------------
// C32: injected write failures

/// Public StorageData wrapper failing the n-th mutating call (DESIGN 2.6).
pub struct Faulty<S: StorageData = FileStorage> {
    inner: S,
    /// number of mutating calls (write/resize) seen
    calls: Arc<AtomicU64>,
    /// fail when `calls` reaches this value (-1 = never)
    fail_at: Arc<AtomicI64>,
    /// true: perform a prefix of the write before failing (short write)
    short: Arc<AtomicU64>,
    fired: Arc<AtomicU64>,
    /// number of flush() calls: the outermost storage transaction flushes when it ends
    flushes: Arc<AtomicU64>,
}

impl<S: StorageData> Faulty<S> {
    fn maybe_fail(&mut self, pos: Option<(u64, &[u8])>) -> Result<(), DbError> {
        let n = self.calls.fetch_add(1, Ordering::Relaxed) as i64;
        if n == self.fail_at.load(Ordering::Relaxed) {
            self.fired.fetch_add(1, Ordering::Relaxed);
            if self.short.load(Ordering::Relaxed) != 0 {
                if let Some((pos, bytes)) = pos {
                    if bytes.len() > 1 {
                        let _ = self.inner.write(pos, &bytes[..bytes.len() / 2]);
                    }
                }
            }
            return Err(DbError::storage(agdb::DbErrorType::NotAllowed, "verif: injected write failure (disk full)"));
        }
        Ok(())
    }
}

impl<S: StorageData> StorageData for Faulty<S> {
    fn backup(&self, name: &str) -> Result<(), DbError> {
        self.inner.backup(name)
    }
    fn copy(&self, name: &str) -> Result<Self, DbError> {
        Ok(Faulty { inner: self.inner.copy(name)?, calls: self.calls.clone(), fail_at: self.fail_at.clone(), short: self.short.clone(), fired: self.fired.clone(), flushes: self.flushes.clone() })
    }
    fn flush(&mut self) -> Result<(), DbError> {
        self.flushes.fetch_add(1, Ordering::Relaxed);
        self.inner.flush()
    }
    fn len(&self) -> u64 {
        self.inner.len()
    }
    fn name(&self) -> &str {
        self.inner.name()
    }
    fn new(name: &str) -> Result<Self, DbError> {
        Ok(Faulty {
            flushes: Arc::new(AtomicU64::new(0)),
            inner: S::new(name)?,
            calls: Arc::new(AtomicU64::new(0)),
            fail_at: Arc::new(AtomicI64::new(-1)),
            short: Arc::new(AtomicU64::new(0)),
            fired: Arc::new(AtomicU64::new(0)),
        })
    }
    fn read(&'_ self, pos: u64, value_len: u64) -> Result<StorageSlice<'_>, DbError> {
        self.inner.read(pos, value_len)
    }
    fn rename(&mut self, new_name: &str) -> Result<(), DbError> {
        self.inner.rename(new_name)
    }
    fn resize(&mut self, new_len: u64) -> Result<(), DbError> {
        self.maybe_fail(None)?;
        self.inner.resize(new_len)
    }
    fn write(&mut self, pos: u64, bytes: &[u8]) -> Result<(), DbError> {
        self.maybe_fail(Some((pos, bytes)))?;
        self.inner.write(pos, bytes)
    }
}

#[derive(Clone, Debug, Serialize, Deserialize)]
pub struct FaultCase {
    pub history: Vec<Step>,
    /// which step receives the fault (selector) and which of its storage calls (selector)
    pub step_sel: u16,
    pub call_sel: u16,
    pub short_write: bool,
    pub suffix: Vec<Step>,
}

fn fault_profile() -> Profile {
    let mut p = Profile::general();
    p.w_reads = 0;
    p.w_tx = 4;
    p.w_insert_index = 3;
    p.invalid_pct = 3;
    p.max_count = 6;
    p
}

fn c32_case(c: &FaultCase) -> CaseResult {
    // pass 1: run the history without faults to learn each step's range of storage calls
    let dir = TempDir::new("c32");
    let ranges: Vec<(u64, u64)> = {
        let name = dir.file("probe.agdb");
        let data = Faulty::new(&name).map_err(|e| Fail::new("harness: Faulty::new", format!("{e:?}")))?;
        let calls = data.calls.clone();
        let mut db: DbImpl<Faulty> = DbImpl::with_data(data).map_err(|e| Fail::new("harness: with_data", format!("{e:?}")))?;
        let mut model = RefDb::default();
        let mut info = HistInfo::default();
        let mut ranges = vec![];
        for s in &c.history {
            let a = calls.load(Ordering::Relaxed);
            let r = run_step(&mut model, &mut db, s, &mut info)?;
            ranges.push((a, calls.load(Ordering::Relaxed)));
            if matches!(r, StepResult::Failed { .. }) {
                // a rolled-back step may reorder edges and properties (C13 allows it): adopt
                // the real order, as run_history does, before the next step is compared
                let real = check_dump(&model, &db, false, "failed step (probe pass)")?;
                resync_order(&mut model, &real);
            }
        }
        ranges
    };
    let candidates: Vec<usize> = ranges.iter().enumerate().filter(|(_, (a, b))| b > a).map(|(i, _)| i).collect();
    let mut ci = CaseInfo::default();
    if candidates.is_empty() {
        ci.label("no step with storage writes");
        return Ok(ci);
    }
    let target = candidates[pick(c.step_sel, candidates.len())];
    let (a, b) = ranges[target];
    let call = a + pick(c.call_sel, (b - a) as usize) as u64;
    // pass 2: same history, fault at `call`
    let name = dir.file("db.agdb");
    let data = Faulty::new(&name).map_err(|e| Fail::new("harness: Faulty::new", format!("{e:?}")))?;
    let (fail_at, short, fired, calls, flushes) = (data.fail_at.clone(), data.short.clone(), data.fired.clone(), data.calls.clone(), data.flushes.clone());
    let mut db: DbImpl<Faulty> = DbImpl::with_data(data).map_err(|e| Fail::new("harness: with_data", format!("{e:?}")))?;
    let mut model = RefDb::default();
    let mut info = HistInfo::default();
    let opts = HistOpts { dump_every: 0, check_after_failure: true };
    run_history(&mut model, &mut db, &c.history[..target], &opts, &mut info)?;
    let before = catch(|| dump_db(&db, &[], DumpMode::Strict))??;
    let base = calls.load(Ordering::Relaxed);
    // creation calls shift nothing: both passes start from the same fresh database
    let _ = base;
    fail_at.store(call as i64, Ordering::Relaxed);
    short.store(c.short_write as u64, Ordering::Relaxed);
    let flushes_before = flushes.load(Ordering::Relaxed);
    let step = &c.history[target];
    let snapshot = model.clone();
    let r = match step {
        Step::Q(q) => {
            let resolved = model.resolve(q);
            catch(|| db.run(&resolved)).map(|r| r.is_ok()).map_err(|mut f| {
                // the rollback ran into half-updated structures: same root cause as the other classes
                f.detail = format!("{}\n{}\nstep {target} {step:?}, failing storage call {call} of [{a},{b})", f.sig, f.detail);
                f.sig = "failed write: the failed query panics (storage transaction left open)".to_string();
                f
            })?
        }
        Step::Tx { queries, fail_after } => {
            let mut m = model.clone();
            catch(|| {
                db.transaction_mut(|t| -> Result<(), DbError> {
                    for (i, q) in queries.iter().enumerate() {
                        if *fail_after == Some(i as u8) {
                            return Err(db_err("abort"));
                        }
                        let resolved = m.resolve(q);
                        let r = t.run(&resolved);
                        m.apply(&resolved, r.as_ref().ok());
                        r?;
                    }
                    Ok(())
                })
            })
            .map_err(|mut f| {
                f.detail = format!("{}\n{}\nstep {target} {step:?}, failing storage call {call} of [{a},{b})", f.sig, f.detail);
                f.sig = "failed write: the failed query panics (storage transaction left open)".to_string();
                f
            })?
            .is_ok()
        }
    };
    fail_at.store(-1, Ordering::Relaxed);
    let hit = fired.load(Ordering::Relaxed) > 0;
    if !hit {
        // the fault position was not reached (ids differ between passes etc.): nothing injected
        ci.label("fault position not reached");
        return Ok(ci);
    }
    let wrote_before = call > a;
    if r {
        return Err(Fail::new(
            "query reports success although a storage write failed",
            format!("step {target} {step:?}, failing storage call {call} of [{a},{b})"),
        ));
    }
    model = snapshot;
    // Trigger predicate of the listed known finding: the failed query left its storage
    // transaction open (an early `?` return skipped the matching commit): the outermost storage
    // transaction of a query flushes the storage when it ends, so a failed query during which
    // the storage saw no flush() never closed it. Failures with the transaction properly
    // closed have some other cause and get a signature naming the query kind, so that they are
    // never absorbed by the known finding.
    let stuck = flushes.load(Ordering::Relaxed) == flushes_before;
    let kind = match step {
        Step::Q(q) => q.kind().to_string(),
        Step::Tx { .. } => "transaction".to_string(),
    };
    let cause = if stuck { " (storage transaction left open)".to_string() } else { format!(" (storage transaction closed; fault in {kind})") };
    // the query had no effect
    // Signatures are coarse on purpose: every failure below has one root cause (a storage
    // write failure in the middle of a query is not rolled back physically), the detailed
    // symptom goes to the detail text.
    let cause_ref = &cause;
    let coarse = |class: &'static str| {
        move |mut f: Fail| {
            f.detail = format!("{}\n{}", f.sig, f.detail);
            f.sig = format!("{class}{cause_ref}");
            f
        }
    };
    let after = catch(|| dump_db(&db, &[], DumpMode::Strict))
        .map_err(coarse("failed write: database unusable afterwards"))?
        .map_err(coarse("failed write: database unusable afterwards"))?;
    if after.normalized() != before.normalized() {
        return Err(Fail::new(
            format!("failed write: the failed query's effect is not undone{cause}"),
            format!("differs in {}; step {target} {step:?}, failing storage call {call} of [{a},{b})\n{}", after.normalized().diff_section(&before.normalized()), after.normalized().diff(&before.normalized())),
        ));
    }
    resync_order(&mut model, &after);
    // later queries behave as on the model
    let mut sinfo = HistInfo::default();
    run_history(&mut model, &mut db, &c.suffix, &HistOpts { dump_every: 1, check_after_failure: true }, &mut sinfo).map_err(coarse("failed write: later queries misbehave"))?;
    let expected = dump_model(&model);
    drop(db);
    // close and reopen with both variants
    for mapped in [false, true] {
        let copy = dir.file(&format!("reopen-{mapped}.agdb"));
        std::fs::copy(&name, &copy).map_err(|e| Fail::new("harness: copy", format!("{e:?}")))?;
        if let Ok(w) = std::fs::read(wal_name(&name)) {
            let _ = std::fs::write(wal_name(&copy), w);
        }
        let d = if mapped {
            let db = catch(|| Db::new(&copy)).map_err(coarse("failed write: reopened file unreadable"))?.map_err(|e| Fail::new(format!("failed write: reopened file unreadable{cause}"), format!("Db::new: {e:?}")))?;
            catch(|| dump_db(&db, &[], DumpMode::Strict)).map_err(coarse("failed write: reopened file unreadable"))?.map_err(coarse("failed write: reopened file unreadable"))?
        } else {
            let db = catch(|| DbFile::new(&copy)).map_err(coarse("failed write: reopened file unreadable"))?.map_err(|e| Fail::new(format!("failed write: reopened file unreadable{cause}"), format!("DbFile::new: {e:?}")))?;
            catch(|| dump_db(&db, &[], DumpMode::Strict)).map_err(coarse("failed write: reopened file unreadable"))?.map_err(coarse("failed write: reopened file unreadable"))?
        };
        if d != expected {
            return Err(Fail::new(
                format!("failed write: later committed work lost or changed after reopen{cause}"),
                format!("differs in {}; step {target} {step:?}, failing storage call {call} of [{a},{b})\nreopened vs model: {}", d.diff_section(&expected), d.diff(&expected)),
            ));
        }
    }
    ci.evals = 1;
    ci.nontrivial = wrote_before && sinfo.ok_steps > 0;
    ci.label(if stuck { "handled although the storage transaction was left open" } else { "handled, storage transaction closed" });
    if wrote_before {
        ci.label("fault after >=1 storage write of the query");
    }
    if c.short_write {
        ci.label("short write");
    }
    if matches!(step, Step::Tx { .. }) {
        ci.label("fault inside a transaction");
    }
    ci.count(format!("fault in {}", match step { Step::Q(q) => q.kind(), Step::Tx { .. } => "transaction" }), 1);
    Ok(ci)
}


/// Second C32 campaign: the same fault injection on a storage WITHOUT a recovery log
/// (Faulty<MemoryStorage>). The listed finding's heaviest consequence - nothing is committed any
/// more and closing rolls later work back - cannot occur there, so what remains visible is how
/// each kind of query copes with a failed write by itself. Signatures name the kind of the hit
/// query; the kinds that misbehave on the unchanged tree are listed findings (same root cause),
/// a kind that is clean there and starts to misbehave is a violation.
fn c32_mem_case(c: &FaultCase) -> CaseResult {
    use agdb::MemoryStorage;
    let ranges: Vec<(u64, u64)> = {
        let data = Faulty::<MemoryStorage>::new("c32mem-probe").map_err(|e| Fail::new("harness: Faulty::new", format!("{e:?}")))?;
        let calls = data.calls.clone();
        let mut db: DbImpl<Faulty<MemoryStorage>> = DbImpl::with_data(data).map_err(|e| Fail::new("harness: with_data", format!("{e:?}")))?;
        let mut model = RefDb::default();
        let mut info = HistInfo::default();
        let mut ranges = vec![];
        for s in &c.history {
            let a = calls.load(Ordering::Relaxed);
            let r = run_step(&mut model, &mut db, s, &mut info)?;
            ranges.push((a, calls.load(Ordering::Relaxed)));
            if matches!(r, StepResult::Failed { .. }) {
                // a rolled-back step may reorder edges and properties (C13 allows it): adopt
                // the real order, as run_history does, before the next step is compared
                let real = check_dump(&model, &db, false, "failed step (probe pass)")?;
                resync_order(&mut model, &real);
            }
        }
        ranges
    };
    // single queries only: the kind of the hit query is the signature
    let candidates: Vec<usize> = ranges.iter().enumerate().filter(|(i, (a, b))| b > a && matches!(c.history[*i], Step::Q(_))).map(|(i, _)| i).collect();
    let mut ci = CaseInfo::default();
    if candidates.is_empty() {
        ci.label("no single query with storage writes");
        return Ok(ci);
    }
    let target = candidates[pick(c.step_sel, candidates.len())];
    let (a, b) = ranges[target];
    let call = a + pick(c.call_sel, (b - a) as usize) as u64;
    let data = Faulty::<MemoryStorage>::new("c32mem").map_err(|e| Fail::new("harness: Faulty::new", format!("{e:?}")))?;
    let (fail_at, short, fired) = (data.fail_at.clone(), data.short.clone(), data.fired.clone());
    let mut db: DbImpl<Faulty<MemoryStorage>> = DbImpl::with_data(data).map_err(|e| Fail::new("harness: with_data", format!("{e:?}")))?;
    let mut model = RefDb::default();
    let mut info = HistInfo::default();
    let opts = HistOpts { dump_every: 0, check_after_failure: true };
    run_history(&mut model, &mut db, &c.history[..target], &opts, &mut info)?;
    let before = catch(|| dump_db(&db, &[], DumpMode::Strict))??;
    fail_at.store(call as i64, Ordering::Relaxed);
    short.store(c.short_write as u64, Ordering::Relaxed);
    let Step::Q(q) = &c.history[target] else { return Ok(ci) };
    let kind = q.kind();
    let resolved = model.resolve(q);
    let sig = |symptom: &str| format!("failed write without recovery log, fault in {kind}: {symptom}");
    let r = catch(|| db.run(&resolved)).map_err(|mut f| {
        f.detail = format!("{}\n{}\nstep {target} {q:?}, failing storage call {call} of [{a},{b})", f.sig, f.detail);
        f.sig = sig("query misbehaves or state inconsistent");
        f
    })?;
    fail_at.store(-1, Ordering::Relaxed);
    if fired.load(Ordering::Relaxed) == 0 {
        ci.label("fault position not reached");
        return Ok(ci);
    }
    if r.is_ok() {
        return Err(Fail::new("query reports success although a storage write failed", format!("step {target} {q:?}, failing storage call {call} of [{a},{b})")));
    }
    let broken = |what: &str, detail: String| Fail::new(sig("query misbehaves or state inconsistent"), format!("{what}: {detail}\nstep {target} {q:?}, failing storage call {call} of [{a},{b})"));
    let after = match catch(|| dump_db(&db, &[], DumpMode::Strict)) {
        Ok(Ok(d)) => d,
        Ok(Err(f)) | Err(f) => return Err(broken("database unusable afterwards", format!("{} {}", f.sig, f.detail))),
    };
    if after.normalized() != before.normalized() {
        return Err(broken("effect not undone", format!("differs in {}: {}", after.normalized().diff_section(&before.normalized()), after.normalized().diff(&before.normalized()))));
    }
    resync_order(&mut model, &after);
    let mut sinfo = HistInfo::default();
    run_history(&mut model, &mut db, &c.suffix, &HistOpts { dump_every: 1, check_after_failure: true }, &mut sinfo).map_err(|f| broken("later queries misbehave", format!("{} {}", f.sig, f.detail)))?;
    ci.evals = 1;
    ci.nontrivial = call > a && sinfo.ok_steps > 0;
    ci.count(format!("clean: fault in {kind}"), 1);
    Ok(ci)
}

pub fn c32(ctx: &mut Ctx) {
    ctx.level = "fault_enumeration".into();
    ctx.rule = "generated histories (5-30 steps) on DbImpl<Faulty<FileStorage>> (a public StorageData wrapper passed to DbImpl::with_data); a first fault-free pass records each step's range of storage write/resize calls; the second pass fails one generated call inside one generated step (clean failure or short write that performs half of the write first), then runs a generated suffix of further queries, closes, and reopens with DbFile::new and Db::new. Oracle: the hit query returns Err; the order-insensitive dump afterwards equals the dump before it; every later query behaves as on the reference model; after reopen the exact dump equals the model after the last successful query. Calls made by Drop/reopen are never failed. Non-trivial: the fault hit a query that had already performed >=1 storage write and >=1 mutating query succeeded after it. Distinct = hash of the case.".into();
    let cases = ctx.tier.pick(600, 12_000);
    let (lo, hi) = ctx.tier.pick((5, 25), (5, 40));
    replay_saved::<FaultCase, _>(ctx, "c32-fault", c32_case);
    run_campaign(
        ctx,
        CampaignCfg { name: "c32-fault", cases, max_shrink_iters: 600, max_restarts: 3 },
        move || {
            (vgen::history(&fault_profile(), lo, hi), any::<u16>(), any::<u16>(), any::<bool>(), prop::collection::vec(vgen::step(&fault_profile()), 2..10))
                .prop_map(|(history, step_sel, call_sel, short_write, suffix)| FaultCase { history, step_sel, call_sel, short_write, suffix })
        },
        c32_case,
    );
    // campaign 2: no recovery log, signatures by the kind of the hit query
    let cases2 = ctx.tier.pick(2000, 40_000);
    replay_saved::<FaultCase, _>(ctx, "c32-fault-nolog", c32_mem_case);
    run_campaign(
        ctx,
        CampaignCfg { name: "c32-fault-nolog", cases: cases2, max_shrink_iters: 600, max_restarts: 3 },
        move || {
            (vgen::history(&fault_profile(), lo, hi), any::<u16>(), any::<u16>(), any::<bool>(), prop::collection::vec(vgen::step(&fault_profile()), 2..10))
                .prop_map(|(history, step_sel, call_sel, short_write, suffix)| FaultCase { history, step_sel, call_sel, short_write, suffix })
        },
        c32_mem_case,
    );
}

pub fn c32_replay(path: &str) -> i32 {
    replay_file::<FaultCase, _>(path, c32_case)
}
