//! C23: concurrent reads see the same results as sequential reads (DESIGN 3/C23).
//! Generated databases, generated read workloads, and a generated perturbation plan for the
//! read-path hook (H3): threads pause while they hold the guard of the shared file handle, which
//! forces the other readers onto the fresh-handle path deterministically. The OS still owns the
//! interleaving; the oracle (equality with the sequential baseline) does not depend on it.
use crate::core::*;
use crate::hist::*;
use crate::model::RefDb;
use crate::query::*;
use crate::vgen;
use crate::vgen::{Profile, Step};
use agdb::{Db, DbError, DbFile, DbImpl, QueryResult, StorageData};
use proptest::prelude::*;
use serde::{Deserialize, Serialize};
use std::sync::atomic::{AtomicU64, Ordering};
use std::sync::{Arc, RwLock};

#[derive(Clone, Debug, Serialize, Deserialize)]
pub struct ConcCase {
    pub history: Vec<Step>,
    pub mapped: bool,
    pub threads: u8,
    pub reads: Vec<CQuery>,
    /// per thread: pause on every k-th read that holds the shared handle (0 = never), in units of 20 microseconds
    pub plan: Vec<(u8, u8)>,
    pub rounds: u8,
    /// how many consecutive queries a thread wraps into one read transaction (1 = none)
    pub tx_len: u8,
}

fn conc_profile() -> Profile {
    let mut p = Profile::general();
    p.w_reads = 0;
    p.w_tx = 1;
    p.w_insert_index = 3;
    p.invalid_pct = 3;
    p
}

fn show(r: &Result<QueryResult, DbError>) -> String {
    match r {
        Ok(v) => format!("Ok({v:?})"),
        Err(_) => "Err".to_string(),
    }
}

struct Stats {
    shared: AtomicU64,
    fresh: AtomicU64,
    reads: AtomicU64,
}

fn workload<S: StorageData + Send + Sync>(db: DbImpl<S>, c: &ConcCase, reads: &[CQuery], ci: &mut CaseInfo) -> Result<(), Fail> {
    // sequential baseline
    let baseline: Vec<String> = reads.iter().map(|q| show(&run_read(&db, q))).collect();
    let threads = (c.threads as usize).clamp(2, 16);
    let stats = Arc::new(Stats { shared: AtomicU64::new(0), fresh: AtomicU64::new(0), reads: AtomicU64::new(0) });
    let lock = RwLock::new(db);
    let failure: std::sync::Mutex<Option<Fail>> = std::sync::Mutex::new(None);
    std::thread::scope(|scope| {
        for t in 0..threads {
            let stats = stats.clone();
            let lock = &lock;
            let failure = &failure;
            let baseline = &baseline;
            let (every, pause) = c.plan.get(t % c.plan.len().max(1)).cloned().unwrap_or((0, 0));
            scope.spawn(move || {
                let counter = std::cell::Cell::new(0u64);
                let st = stats.clone();
                agdb::verif::set_read_callback(Some(Box::new(move |shared| {
                    if shared {
                        st.shared.fetch_add(1, Ordering::Relaxed);
                        let n = counter.get() + 1;
                        counter.set(n);
                        if every > 0 && n % every as u64 == 0 {
                            if pause == 0 {
                                std::thread::yield_now();
                            } else {
                                std::thread::sleep(std::time::Duration::from_micros(20 * pause as u64));
                            }
                        }
                    } else {
                        st.fresh.fetch_add(1, Ordering::Relaxed);
                    }
                })));
                let n = reads.len();
                let tx = (c.tx_len as usize).clamp(1, 6);
                'outer: for round in 0..c.rounds.max(1) as usize {
                    let mut i = 0;
                    while i < n {
                        if failure.lock().unwrap().is_some() {
                            break 'outer;
                        }
                        let guard = lock.read().unwrap();
                        let chunk: Vec<usize> = (i..(i + tx).min(n)).map(|k| (k + t * 7 + round * 3) % n).collect();
                        let run_chunk = std::panic::AssertUnwindSafe(|| -> Vec<(usize, String)> { if chunk.len() > 1 {
                            // a read transaction with several queries
                            let mut out = vec![];
                            let _ = guard.transaction(|tr| -> Result<(), DbError> {
                                for k in &chunk {
                                    out.push((*k, show(&run_read_tx(tr, &reads[*k]))));
                                }
                                Ok(())
                            });
                            out
                        } else {
                            chunk.iter().map(|k| (*k, show(&run_read(&guard, &reads[*k])))).collect()
                        } });
                        let results = match catch(run_chunk) {
                            Ok(r) => r,
                            Err(mut f) => {
                                f.sig = format!("concurrent read panics: {}", f.sig);
                                f.detail = format!("thread {t} round {round} queries {:?}: {}", chunk.iter().map(|k| &reads[*k]).collect::<Vec<_>>(), f.detail);
                                *failure.lock().unwrap() = Some(f);
                                break 'outer;
                            }
                        };
                        drop(guard);
                        stats.reads.fetch_add(results.len() as u64, Ordering::Relaxed);
                        for (k, got) in results {
                            if got != baseline[k] {
                                let kind = reads[k].kind();
                                let what = if got == "Err" { "fails" } else if baseline[k] == "Err" { "succeeds although it fails alone" } else { "returns a different result" };
                                *failure.lock().unwrap() = Some(Fail::new(
                                    format!("concurrent read {what} ({kind})"),
                                    format!("thread {t} round {round} query {k} {:?}\n alone:      {}\n concurrent: {}", reads[k], truncate(&baseline[k], 1500), truncate(&got, 1500)),
                                ));
                                break 'outer;
                            }
                        }
                        i += tx;
                    }
                }
                agdb::verif::set_read_callback(None);
            });
        }
    });
    if let Some(f) = failure.into_inner().unwrap() {
        return Err(f);
    }
    let fresh = stats.fresh.load(Ordering::Relaxed);
    ci.evals = stats.reads.load(Ordering::Relaxed);
    ci.count("reads holding the shared handle", stats.shared.load(Ordering::Relaxed));
    ci.count("reads on the contended (fresh handle) path", fresh);
    ci.nontrivial = threads >= 2 && fresh > 0;
    if fresh > 0 {
        ci.label("contended path taken");
    }
    Ok(())
}

fn c23_case(c: &ConcCase) -> CaseResult {
    let dir = TempDir::new("c23");
    let name = dir.file("db.agdb");
    let mut ci = CaseInfo::default();
    let mut model = RefDb::default();
    let mut info = HistInfo::default();
    let opts = HistOpts { dump_every: 0, check_after_failure: true };
    if c.mapped {
        let mut db = Db::new(&name).map_err(|e| Fail::new("harness: Db::new", format!("{e:?}")))?;
        run_history(&mut model, &mut db, &c.history, &opts, &mut info)?;
        let reads: Vec<CQuery> = c.reads.iter().map(|q| model.resolve(q)).collect();
        ci.label("memory mapped variant");
        workload(db, c, &reads, &mut ci)?;
    } else {
        let mut db = DbFile::new(&name).map_err(|e| Fail::new("harness: DbFile::new", format!("{e:?}")))?;
        run_history(&mut model, &mut db, &c.history, &opts, &mut info)?;
        let reads: Vec<CQuery> = c.reads.iter().map(|q| model.resolve(q)).collect();
        ci.label("file-only variant");
        workload(db, c, &reads, &mut ci)?;
        // a contended path must have been possible: the file variant reads through the shared handle
    }
    ci.label(format!("{} threads", (c.threads as usize).clamp(2, 16)));
    Ok(ci)
}

fn conc_case(lo: usize, hi: usize) -> impl Strategy<Value = ConcCase> {
    let p = conc_profile();
    (
        vgen::history(&p, lo, hi),
        prop_oneof![5 => Just(false), 1 => Just(true)],
        2u8..=16,
        prop::collection::vec(vgen::q_read(&p), 12..40),
        prop::collection::vec((prop_oneof![Just(0u8), Just(1u8), Just(2u8), Just(5u8), Just(17u8)], 0u8..8), 1..6),
        1u8..4,
        prop_oneof![2 => Just(1u8), 1 => 2u8..5],
    )
        .prop_map(|(history, mapped, threads, reads, plan, rounds, tx_len)| ConcCase { history, mapped, threads, reads, plan, rounds, tx_len })
}

pub fn c23(ctx: &mut Ctx) {
    ctx.rule = "databases built by generated histories on DbFile (whose reads go through the shared file handle) and, at lower weight, Db; a generated workload of 12-40 read queries (selects by ids / keys / search, keys, key counts, aliases, edge counts, indexes, node count, searches of every algorithm, index searches; some fail alone and must fail concurrently too), executed by 2-16 threads under a shared RwLock read guard, 1-3 rounds, singly or in read transactions of 2-4 queries; a generated perturbation plan makes threads yield or sleep 20-140 microseconds on every k-th read while they hold the guard of the shared handle (source hook in FileStorage::read), which pushes the other readers onto the fresh-handle path. Oracle: every result equals the result of the same query run alone before the threads start (exact equality of Ok results; Err stays Err). evaluations = reads executed concurrently. Non-trivial: >=2 threads and >=1 read on the contended path (counted by the hook). Distinct = hash of the case.".into();
    ctx.assumptions.push("the operating system owns the thread interleaving; the hook only forces contention. A failure may need several replays to reproduce; replay runs the saved workload 20 times".into());
    let cases = ctx.tier.pick(1500, 12_000);
    let (lo, hi) = ctx.tier.pick((10, 50), (10, 90));
    let saved = ctx.workers;
    replay_saved::<ConcCase, _>(ctx, "c23-concurrent", |c| {
        let mut last = c23_case(c)?;
        for _ in 0..19 {
            last = c23_case(c)?;
        }
        Ok(last)
    });
    run_campaign(ctx, CampaignCfg { name: "c23-concurrent", cases, max_shrink_iters: 200, max_restarts: 2 }, move || conc_case(lo, hi), c23_case);
    ctx.workers = saved;
}

pub fn c23_replay(path: &str) -> i32 {
    replay_file::<ConcCase, _>(path, |c| {
        let mut last = c23_case(c)?;
        for _ in 0..19 {
            last = c23_case(c)?;
        }
        Ok(last)
    })
}
