#!/usr/bin/env python3
"""usage: python3-vt tools/validate.py  - validates MANIFEST.json and evidence/*.json against the schemas"""
import json,jsonschema,glob,sys,os
here=os.path.dirname(os.path.dirname(os.path.abspath(__file__)))
bad=0
ms=json.load(open('/root/.vp/MANIFEST.schema.json')); jsonschema.validate(json.load(open(here+'/MANIFEST.json')),ms); print('manifest ok')
es=json.load(open('/root/.vp/EVIDENCE.schema.json'))
fs=sorted(glob.glob(here+'/evidence/*.json'))
for f in fs:
    try: jsonschema.validate(json.load(open(f)),es)
    except Exception as e: print(f,'BAD',str(e)[:300]); bad+=1
print(len(fs),'evidence files,',bad,'bad')
sys.exit(1 if bad else 0)
