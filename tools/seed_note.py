#!/usr/bin/env python3
"""usage: tools/seed_note.py <seed name> <text>  - appends a note to meta.json"""
import json,sys,os
name,text=sys.argv[1],sys.argv[2]
p=f"/verif/seeded/{name}/meta.json"
m=json.load(open(p)) if os.path.exists(p) else {"seed":name}
m.setdefault("notes",[]).append(text)
json.dump(m,open(p,"w"),indent=1)
