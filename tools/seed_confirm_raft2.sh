#!/bin/bash
# usage: tools/seed_confirm_raft2.sh <seed name> <worktree> <property id>
# Variant for changes to agdb_server/src/raft.rs whose demonstration is a stand-alone integration
# test (agdb_server/tests/seeded_demo.rs) that compiles src/raft.rs through #[path].
set -u
NAME="$1"; WT="$2"; PROP="$3"
export CARGO_NET_OFFLINE=true CARGO_TARGET_DIR=/tmp/seed/target-shared
OUT=/verif/seeded/$NAME; mkdir -p "$OUT"
cd "$WT" || exit 2
cp SEED/patch.diff "$OUT/patch.diff"; cp SEED/NOTES.md "$OUT/NOTES.md" 2>/dev/null; cp SEED/demo.rs "$OUT/demo.rs" || exit 3
LOG=$OUT/confirm.log; : > $LOG
D=agdb_server/tests/seeded_demo.rs
git checkout -q -- . ; rm -f $D; git apply "$OUT/patch.diff" || exit 2
T1=pass
cargo test --offline -p agdb_server --bin agdb_server >>$LOG 2>&1 || T1=fail
if ! cargo test --offline -p agdb_server --test tests cluster -- --test-threads 2 >>$LOG 2>&1; then
  FAILED=$(grep -E "^test .* FAILED" $LOG | awk '{print $2}' | sort -u)
  for t in $FAILED; do cargo test --offline -p agdb_server --test tests "$t" -- --test-threads 1 >>$LOG 2>&1 || T1=fail; done
  echo "re-ran alone: $FAILED -> $T1"
fi
echo "existing unit tests and cluster tests with change: $T1"
cp "$OUT/demo.rs" $D
if cargo test --offline -p agdb_server --test seeded_demo >>$LOG 2>&1; then T2=pass; else T2=fail; fi; echo "demo with change: $T2 (expected fail)"
git apply -R "$OUT/patch.diff"
if cargo test --offline -p agdb_server --test seeded_demo >>$LOG 2>&1; then T3=pass; else T3=fail; fi; echo "demo without change: $T3 (expected pass)"
grep -E "^test result" $LOG | tail -6
rm -f $D; git checkout -q -- . ; git apply "$OUT/patch.diff"
python3 - "$OUT" "$NAME" "$PROP" "$T1" "$T2" "$T3" <<'P'
import json,sys,os
out,name,prop,t1,t2,t3=sys.argv[1:7]
meta={"seed":name,"breaks_property":prop,"patch":"patch.diff","demo":"demo.rs","demo_location_in_repo":"agdb_server/tests/seeded_demo.rs",
 "confirmed_by_me":{"existing_tests_with_change":t1,"demo_with_change":t2,"demo_without_change":t3,
   "commands":["cargo test --offline -p agdb_server --bin agdb_server ; cargo test --offline -p agdb_server --test tests cluster   (patch applied, demo absent; tests failing to start a server under load re-run alone)", "cargo test --offline -p agdb_server --test seeded_demo   (with the patch: must fail; without: must pass)"]},
 "confirmed": t1=="pass" and t2=="fail" and t3=="pass"}
p=os.path.join(out,"meta.json")
if os.path.exists(p):
    old=json.load(open(p)); old.update(meta); meta=old
json.dump(meta,open(p,"w"),indent=1)
print("confirmed:",meta["confirmed"])
P
tail -c 3000 $LOG > $OUT/confirm.tail; rm -f $LOG
