#!/bin/bash
# usage: tools/seed_eval.sh <seed name> <check id>[:tier] ...
# Applies /verif/seeded/<name>/patch.diff to /repo, runs the given checks (output and replays go
# to a scratch directory, never to /verif/evidence or /verif/replays), then restores /repo.
set -u
NAME="$1"; shift
P=/verif/seeded/$NAME/patch.diff
cd /verif || exit 2
if ! git -C /repo diff --quiet; then echo "/repo has uncommitted changes; refusing"; exit 2; fi
git -C /repo apply "$P" || { echo "patch does not apply"; exit 2; }
trap 'git -C /repo checkout -- . ' EXIT
RES=""
for spec in "$@"; do
  ID=${spec%%:*}; TIER=quick; [[ "$spec" == *:* ]] && TIER=${spec##*:}
  O=/tmp/seedout/$NAME-$ID; rm -rf $O; mkdir -p $O
  S=$(date +%s)
  VERIF_OUT=$O ./check $ID $TIER > $O/log 2>&1; RC=$?
  E=$(( $(date +%s) - S ))
  SIG=$(grep -m3 "signature:" $O/log | cut -c1-200 | tr '\n' ';')
  echo "seed=$NAME check=$ID tier=$TIER rc=$RC secs=$E $(grep -E "^$ID $TIER:" $O/log) sig=[$SIG]"
  RES="$RES $ID:$TIER:rc=$RC:${E}s"
done
python3 - "$NAME" "$RES" <<'P'
import json,sys,os
name,res=sys.argv[1],sys.argv[2].split()
p=f"/verif/seeded/{name}/meta.json"
m=json.load(open(p)) if os.path.exists(p) else {"seed":name}
d=m.setdefault("checks_run",{})
for r in res:
    id,tier,rc,secs=r.split(":")
    d[f"{id} {tier}"]={"exit":int(rc[3:]),"detected":rc=="rc=1","secs":int(secs[:-1])}
json.dump(m,open(p,"w"),indent=1)
P
