#!/bin/bash
# usage: tools/sweep.sh <tier> <seed list> <check ids...>   - runs checks on several seeds, output under ./sweep-out
# (meant for `vp run`: evidence and replays go to ./sweep-out, never to /verif)
TIER="$1"; SEEDS="$2"; shift 2
HERE="$(cd "$(dirname "$0")/.." && pwd)"; cd "$HERE"
mkdir -p sweep-out
for s in $SEEDS; do
  for id in "$@"; do
    O=sweep-out/$id-$TIER-$s; mkdir -p $O
    VERIF_SEED=$s VERIF_OUT=$HERE/$O ./check $id $TIER > $O/log 2>&1; rc=$?
    echo "seed=$s $id $TIER rc=$rc $(grep -E "^$id $TIER:" $O/log) $(grep -m2 'signature:' $O/log | tr '\n' ' ' | cut -c1-200)"
  done
done
