#!/bin/bash
# usage: tools/fuzz.sh <property id> <seconds> [jobs]
# Bounded libFuzzer campaign for the target of a property (C04 fuzz_storage_ops, C07 fuzz_open_db,
# C20 fuzz_serialize_rt, C21 fuzz_deserialize) from the committed seed corpus plus a fresh
# working corpus; the semantic oracle is inside the target. A crash is printed as
#   VIOLATION property=<id> replay=<artifact>   (exit 1); timeouts and OOM of the fuzzer itself are ignored.
set -u
ID="$1"; SECS="${2:-60}"; JOBS="${3:-4}"
case "$ID" in
  C04) T=fuzz_storage_ops ;; C07) T=fuzz_open_db ;; C20) T=fuzz_serialize_rt ;; C21) T=fuzz_deserialize ;;
  *) echo "no fuzz target for $ID"; exit 0 ;;
esac
HERE="$(cd "$(dirname "$0")/.." && pwd)"
OUT="${VERIF_OUT:-$HERE}"
WORK="$HERE/target/fuzz-work/$T"; ART="$OUT/replays/$ID"
mkdir -p "$WORK/corpus" "$ART"
export CARGO_NET_OFFLINE=true RUSTFLAGS="--cfg agdb_verif" VERIF_HOME="$HERE"
cd "$HERE/fuzzing" || exit 2
LOG="$HERE/target/fuzz-$T.log"
if ! cargo +nightly fuzz build "$T" >"$LOG" 2>&1; then echo "HARNESS: fuzz build failed (see $LOG)"; tail -20 "$LOG"; exit 2; fi
SEED=${VERIF_SEED:-0}; [ "$SEED" = 0 ] && SEED=1
cargo +nightly fuzz run "$T" "$WORK/corpus" "$HERE/fuzzing/seeds/$T" -- -max_total_time="$SECS" -seed="$SEED" -len_control=0 -max_len=4096 \
  -malloc_limit_mb=64 -rss_limit_mb=4096 -timeout=5 -ignore_timeouts=1 -ignore_ooms=1 -fork="$JOBS" -artifact_prefix="$ART/fuzz-" >>"$LOG" 2>&1
RUNS=$(grep -oE "#[0-9]+: cov" "$LOG" | tail -1 | tr -dc 0-9); COV=$(grep -oE "cov: [0-9]+" "$LOG" | tail -1 | tr -dc 0-9)
rm -f "$ART"/fuzz-oom-* "$ART"/fuzz-timeout-* "$ART"/fuzz-slow-unit-* "$ART"/fuzz-leak-*
CRASH=$(ls "$ART"/fuzz-crash-* 2>/dev/null | head -1)
echo "fuzz $T: ${SECS}s x $JOBS jobs, executions ~${RUNS:-?}, coverage ${COV:-?}, crash artifact: ${CRASH:-none}"
if [ -n "$CRASH" ]; then
  # confirm with the strict in-process replay (the fuzzer also stops on its own OOM/timeouts)
  R=$(VERIF_REPLAY_TOLERATE_KNOWN=1 "$HERE/check" "$ID" --replay "$CRASH")
  if echo "$R" | grep -q "^VIOLATION"; then
    echo "$R" | head -4; exit 1
  fi
  echo "$R" | grep "^KNOWN-FINDING" | head -1 | cut -c1-200
  echo "fuzz $T: artifact $CRASH is a listed known finding or a fuzzer resource limit; removed"
  rm -f "$CRASH"
fi
exit 0
