#!/usr/bin/env python3
"""usage: tools/seed_needs.py <seed name> <text>  - records in meta.json what the change needs in order to manifest"""
import json,sys,os
name,text=sys.argv[1],sys.argv[2]
p=f"/verif/seeded/{name}/meta.json"
m=json.load(open(p)) if os.path.exists(p) else {"seed":name}
m["needs_to_manifest"]=text
json.dump(m,open(p,"w"),indent=1)
