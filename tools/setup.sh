#!/bin/bash
# Builds the whole framework offline from files on disk (harness with hooks on).
set -e
export CARGO_NET_OFFLINE=true
export RUSTFLAGS="--cfg agdb_verif"
cd /verif/harness
cargo build --release
