#!/bin/bash
# Builds the whole framework offline from files on disk (harness with hooks on).
set -e
export CARGO_NET_OFFLINE=true
export RUSTFLAGS="--cfg agdb_verif"
HERE="$(cd "$(dirname "$0")/.." && pwd)"
cd "$HERE/harness"
cargo build --release --target-dir "$HERE/target/harness"
# the libFuzzer targets (nightly toolchain, sanitizer build); used by the thorough tiers of C04, C07, C20, C21
cd "$HERE/fuzzing" && cargo +nightly fuzz build || echo "HARNESS: fuzz targets could not be built; the thorough tiers of C04/C07/C20/C21 will report exit 2"
