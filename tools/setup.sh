#!/bin/bash
# Builds the whole framework offline from files on disk (harness with hooks on).
set -e
export CARGO_NET_OFFLINE=true
export RUSTFLAGS="--cfg agdb_verif"
HERE="$(cd "$(dirname "$0")/.." && pwd)"
cd "$HERE/harness"
cargo build --release --target-dir "$HERE/target/harness"
