#!/bin/bash
# usage: tools/seed_confirm.sh <seed name> <worktree> <property id> [crate for the demo] [test packages...]
# Confirms a sub-agent's seeded change in its scratch worktree (existing tests pass with it, the
# demonstration fails with it and passes without it) and copies it to /verif/seeded/<name>/.
set -u
NAME="$1"; WT="$2"; PROP="$3"; CRATE="${4:-agdb}"; shift 4 2>/dev/null || shift 3
PKGS="${*:--p agdb -p agdb_derive}"
export CARGO_NET_OFFLINE=true CARGO_TARGET_DIR=/tmp/seed/target-shared
OUT=/verif/seeded/$NAME
mkdir -p "$OUT"
cd "$WT" || exit 2
cp SEED/patch.diff "$OUT/patch.diff"; cp SEED/NOTES.md "$OUT/NOTES.md" 2>/dev/null; cp SEED/demo.rs "$OUT/demo.rs" || exit 3
LOG=$OUT/confirm.log; : > $LOG
DEMOFILE=$CRATE/tests/seeded_demo.rs
rm -f $DEMOFILE
git checkout -q -- . ; git apply "$OUT/patch.diff" || { echo "patch does not apply to a clean tree"; exit 2; }
echo "== existing tests with the change ($PKGS)" | tee -a $LOG
if cargo test --offline $PKGS >>$LOG 2>&1; then echo "existing tests: PASS" | tee -a $LOG; T1=pass; else echo "existing tests: FAIL" | tee -a $LOG; T1=fail; grep -E "^test .* FAILED|panicked" $LOG | head; fi
cp "$OUT/demo.rs" $DEMOFILE
echo "== demo with the change: cargo test -p $CRATE --test seeded_demo" | tee -a $LOG
if cargo test --offline -p $CRATE --test seeded_demo >>$LOG 2>&1; then echo "demo with change: PASS (unexpected)" | tee -a $LOG; T2=pass; else echo "demo with change: FAIL (expected)" | tee -a $LOG; T2=fail; fi
git apply -R "$OUT/patch.diff" || { echo "cannot revert patch"; exit 2; }
echo "== demo without the change" | tee -a $LOG
if cargo test --offline -p $CRATE --test seeded_demo >>$LOG 2>&1; then echo "demo without change: PASS (expected)" | tee -a $LOG; T3=pass; else echo "demo without change: FAIL (unexpected)" | tee -a $LOG; T3=fail; fi
git apply "$OUT/patch.diff"
python3 - "$OUT" "$NAME" "$PROP" "$T1" "$T2" "$T3" "$DEMOFILE" "$PKGS" <<'P'
import json,sys,os
out,name,prop,t1,t2,t3,demo,pkgs=sys.argv[1:9]
meta={"seed":name,"breaks_property":prop,"patch":"patch.diff","demo":"demo.rs","demo_location_in_repo":demo,
 "confirmed_by_me":{"existing_tests_with_change":t1,"demo_with_change":t2,"demo_without_change":t3,
   "commands":[f"cargo test --offline {pkgs}   (patch applied, demo absent)", f"cargo test --offline -p {demo.split('/')[0]} --test seeded_demo   (with the patch: must fail; without: must pass)"]},
 "confirmed": t1=="pass" and t2=="fail" and t3=="pass"}
p=os.path.join(out,"meta.json")
if os.path.exists(p):
    old=json.load(open(p)); old.update(meta); meta=old
json.dump(meta,open(p,"w"),indent=1)
print("confirmed:",meta["confirmed"])
P
grep -E "^test result|FAILED|^error" $LOG | tail -40 > $OUT/confirm.tail; rm -f $LOG
