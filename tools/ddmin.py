#!/usr/bin/env python3
"""Delta-debugging for cases whose failure kills the process (abort / huge allocation), where
proptest cannot shrink in-process. usage: ddmin.py <ID> <campaign> <case.json> [field]
The case (or case[field]) must be a list; elements are removed while `vcheck ID --replay`
still fails (exit code != 0)."""
import json, subprocess, sys, tempfile, os
pid, campaign, path = sys.argv[1:4]
field = sys.argv[4] if len(sys.argv) > 4 else None
case = json.load(open(path))
def fails(c):
    f = tempfile.NamedTemporaryFile('w', suffix='.json', delete=False)
    json.dump({"property": pid, "campaign": campaign, "signature": "", "detail": "", "case": c}, f); f.close()
    r = subprocess.run(["/verif/target/harness/release/vcheck", pid, "--replay", f.name], capture_output=True, timeout=120)
    os.unlink(f.name)
    return r.returncode != 0
def get(c): return c[field] if field else c
def put(c, l):
    if field:
        d = dict(c); d[field] = l; return d
    return l
assert fails(case), "case does not fail"
l = get(case); n = 2
while len(l) >= 2:
    chunk = max(1, len(l) // n); reduced = False
    for i in range(0, len(l), chunk):
        cand = l[:i] + l[i+chunk:]
        if cand and fails(put(case, cand)):
            l = cand; n = max(n - 1, 2); reduced = True; break
    if not reduced:
        if chunk == 1: break
        n = min(n * 2, len(l))
out = put(case, l)
print(json.dumps(out))
