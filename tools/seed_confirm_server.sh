#!/bin/bash
# usage: tools/seed_confirm_server.sh <seed name> <worktree> <property id> <module name for the demo>
# Variant of seed_confirm.sh for agdb_server changes whose demonstration is an integration test
# module placed in agdb_server/tests/routes/ and registered in routes/mod.rs.
set -u
NAME="$1"; WT="$2"; PROP="$3"; MOD="$4"
export CARGO_NET_OFFLINE=true CARGO_TARGET_DIR=/tmp/seed/target-shared
OUT=/verif/seeded/$NAME; mkdir -p "$OUT"
cd "$WT" || exit 2
cp SEED/patch.diff "$OUT/patch.diff"; cp SEED/NOTES.md "$OUT/NOTES.md" 2>/dev/null; cp SEED/demo.rs "$OUT/demo.rs" || exit 3
LOG=$OUT/confirm.log; : > $LOG
git checkout -q -- . ; rm -f agdb_server/tests/routes/$MOD.rs; git apply "$OUT/patch.diff" || exit 2
run_suite() { cargo test --offline -p agdb_server -- --test-threads 4 >>$LOG 2>&1; }
if run_suite; then T1=pass; else
  # server tests start real processes and can fail under load: re-run the failed ones alone
  FAILED=$(grep -E "^test .* FAILED" $LOG | awk '{print $2}' | sort -u)
  T1=pass
  for t in $FAILED; do cargo test --offline -p agdb_server --test tests "$t" -- --test-threads 1 >>$LOG 2>&1 || T1=fail; done
  echo "re-ran alone: $FAILED -> $T1"
fi
echo "existing server tests with change: $T1"
add_demo() { cp "$OUT/demo.rs" agdb_server/tests/routes/$MOD.rs; grep -q "mod $MOD;" agdb_server/tests/routes/mod.rs || echo "mod $MOD;" >> agdb_server/tests/routes/mod.rs; }
add_demo
if cargo test --offline -p agdb_server --test tests "$MOD" -- --test-threads 2 >>$LOG 2>&1; then T2=pass; else T2=fail; fi; echo "demo with change: $T2 (expected fail)"
git apply -R "$OUT/patch.diff"
if cargo test --offline -p agdb_server --test tests "$MOD" -- --test-threads 2 >>$LOG 2>&1; then T3=pass; else T3=fail; fi; echo "demo without change: $T3 (expected pass)"
grep -E "^test result" $LOG | tail -6
rm -f agdb_server/tests/routes/$MOD.rs; git checkout -q -- . ; git apply "$OUT/patch.diff"
python3 - "$OUT" "$NAME" "$PROP" "$T1" "$T2" "$T3" "$MOD" <<'P'
import json,sys,os
out,name,prop,t1,t2,t3,mod=sys.argv[1:8]
meta={"seed":name,"breaks_property":prop,"patch":"patch.diff","demo":"demo.rs","demo_location_in_repo":f"agdb_server/tests/routes/{mod}.rs, registered with `mod {mod};` in agdb_server/tests/routes/mod.rs",
 "confirmed_by_me":{"existing_tests_with_change":t1,"demo_with_change":t2,"demo_without_change":t3,
   "commands":["cargo test --offline -p agdb_server -- --test-threads 4   (patch applied, demo absent; tests failing under load re-run alone)", f"cargo test --offline -p agdb_server --test tests {mod}   (with the patch: must fail; without: must pass)"]},
 "confirmed": t1=="pass" and t2=="fail" and t3=="pass"}
p=os.path.join(out,"meta.json")
if os.path.exists(p):
    old=json.load(open(p)); old.update(meta); meta=old
json.dump(meta,open(p,"w"),indent=1)
print("confirmed:",meta["confirmed"])
P
rm -f $LOG
