#!/bin/bash
# usage: tools/seed_confirm_raft.sh <seed name> <worktree> <property id> <demo test name>
# Variant of seed_confirm.sh for changes to agdb_server/src/raft.rs whose demonstration is a test
# appended to the module's own #[cfg(test)] mod test.
set -u
NAME="$1"; WT="$2"; PROP="$3"; TEST="$4"
export CARGO_NET_OFFLINE=true CARGO_TARGET_DIR=/tmp/seed/target-shared
OUT=/verif/seeded/$NAME; mkdir -p "$OUT"
cd "$WT" || exit 2
cp SEED/patch.diff "$OUT/patch.diff"; cp SEED/NOTES.md "$OUT/NOTES.md" 2>/dev/null; cp SEED/demo.rs "$OUT/demo.rs" || exit 3
LOG=$OUT/confirm.log; : > $LOG
git checkout -q -- . ; git apply "$OUT/patch.diff" || exit 2
if cargo test --offline -p agdb_server raft >>$LOG 2>&1; then T1=pass; else T1=fail; fi; echo "existing raft tests with change: $T1"
F=agdb_server/src/raft.rs
add_demo() { python3 - "$F" "$OUT/demo.rs" <<'P'
import sys
f,d=sys.argv[1],sys.argv[2]
s=open(f).read().rstrip()
assert s.endswith('}')
s=s[:-1]+"\n"+open(d).read()+"\n}\n"
open(f,'w').write(s)
P
}
add_demo
if cargo test --offline -p agdb_server "raft::test::$TEST" >>$LOG 2>&1; then T2=pass; else T2=fail; fi; echo "demo with change: $T2 (expected fail)"
git checkout -q -- . ; add_demo
if cargo test --offline -p agdb_server "raft::test::$TEST" >>$LOG 2>&1; then T3=pass; else T3=fail; fi; echo "demo without change: $T3 (expected pass)"
grep -E "test result|running [1-9]" $LOG | tail -8
git checkout -q -- . ; git apply "$OUT/patch.diff"
python3 - "$OUT" "$NAME" "$PROP" "$T1" "$T2" "$T3" "$TEST" <<'P'
import json,sys,os
out,name,prop,t1,t2,t3,test=sys.argv[1:8]
meta={"seed":name,"breaks_property":prop,"patch":"patch.diff","demo":"demo.rs","demo_location_in_repo":"appended to #[cfg(test)] mod test of agdb_server/src/raft.rs",
 "confirmed_by_me":{"existing_tests_with_change":t1,"demo_with_change":t2,"demo_without_change":t3,
   "commands":["cargo test --offline -p agdb_server raft   (patch applied, demo absent)", f"cargo test --offline -p agdb_server raft::test::{test}   (demo appended; with the patch: must fail; without: must pass)"]},
 "confirmed": t1=="pass" and t2=="fail" and t3=="pass"}
p=os.path.join(out,"meta.json")
if os.path.exists(p):
    old=json.load(open(p)); old.update(meta); meta=old
json.dump(meta,open(p,"w"),indent=1)
print("confirmed:",meta["confirmed"])
P
rm -f $LOG
