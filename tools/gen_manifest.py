#!/usr/bin/env python3
"""Generates /verif/MANIFEST.json from the table below (kept in one place so that the
manifest stays valid while checks are added)."""
import json, sys, os

HOOK_COMMITS = []  # filled in below from tools/hook_commits.txt
p = os.path.join(os.path.dirname(__file__), "hook_commits.txt")
if os.path.exists(p):
    HOOK_COMMITS = [l.strip() for l in open(p) if l.strip()]

# id -> (engine, category, technique, level text, level note, design ref)
CHECKS = {}
def add(id, engine, cat, tech, text, note, ref):
    CHECKS[id] = (engine, cat, tech, text, note, ref)

MB = "model-based property testing (proptest): generated query histories executed on the real database in lock-step with an independent reference model; every result and the canonical state dump compared after every step; failures shrunk to a minimal replay"
add("C08", "vcheck", "exploration", MB,
    "Generated histories (30-200 steps, 15% invalid references, id reuse) on DbMemory compared step by step with a reference directed multigraph written from the documentation: ids' sign and freshness, cascade removal, endpoint validation without effect, node count, endpoints, per-node edge counts and lists. Exploration: thousands of distinct histories, never absence.",
    "Trusted: the reference model (vcheck/src/model.rs, written from queries.md) and that DbMemory exercises the same graph code as the file variants (C06 covers the variants). Fresh ids are adopted, not predicted.", "DESIGN 3/C08")
add("C09", "vcheck", "exploration", MB,
    "Histories focused on per-element properties compared with a reference ordered key-value map after every step (replace in place, append, removal, element removal, selection by keys in requested order, missing key on explicit id is an error).",
    "Trusted: the reference model; keys inside one insert list are distinct (precondition stated by the property). Missing keys with ids from a search are not decided (documentation silent).", "DESIGN 3/C09")
add("C10", "vcheck", "exploration", MB,
    "Histories focused on aliases (new, re-alias, steal, edge ids, empty alias through every entry point, removal, id reuse) with the alias<->node bijection read back after every step through three independent queries.",
    "Trusted: the reference model. Order of the alias listing is compared as a set.", "DESIGN 3/C10")
add("C11", "vcheck", "exploration", MB,
    "Histories mixing indexed/non-indexed value changes, cascades, index create/remove, failing queries and rolled-back transactions; after every step every indexed key is probed with every pool value and every present value and compared as a multiset with the model, plus the index listing counts.",
    "Trusted: the reference model; index search results compared as multisets (order undocumented).", "DESIGN 3/C11")

MM = "metamorphic property testing (proptest): generated histories and inputs, the same database observed before/after an operation that must not change it"
DIFF = "differential property testing (proptest): generated histories executed in lock-step on all storage variants, results compared exactly"
RT = "round-trip property testing (proptest) over generated values with boundary-weighted generators plus an exhaustive length grid"
add("C05", "vcheck", "exploration", MM,
    "Generated histories on Db, DbFile and DbMemory followed by generated sequences of maintenance operations (reopen same/other variant, optimize_storage, shrink_to_fit, backup+open, copy, rename), two rounds with more queries in between; the exact canonical dump plus the result order of bfs/dfs from/to from every element must be identical before and after every operation, and all later steps must still conform to the reference model.",
    "Trusted: the canonical dump reads everything a query can observe (ids, endpoints, property order, edge order, aliases, index contents, search orders); the reference model for the steps after maintenance.", "DESIGN 3/C05")
add("C06", "vcheck", "exploration", DIFF,
    "Generated histories incl. reads, failing queries and rolled-back transactions executed side by side on DbMemory, DbFile, Db and the three DbAny kinds; every query must return the same Ok(QueryResult) or fail on all six; final extended dumps equal.",
    "Only success/failure and results decide (as the property states); error texts are not compared. DbMemory is the reference side of the comparison.", "DESIGN 3/C06")
add("C12", "vcheck", "exploration", RT,
    "Pairs (key, value) from the full nine-type value strategy with heavy mass on the 15/16-byte inline boundary, unicode, extreme integers and float bit patterns, stored on every variant and read back bit for bit directly, after reopen (same and other file variant) and after backup+reload; thorough adds the exhaustive 0..40 length grid x character widths.",
    "Floats are compared by bit pattern. Keys within one element are distinct.", "DESIGN 3/C12")
add("C13", "vcheck", "exploration", MB,
    "A generated prefix, then one failing unit (transaction aborted after every possible k, transaction hitting a failing query, single query constructed to fail part-way), then a suffix: order-insensitive dump before == after the failed unit and the suffix conforms to the model that never saw it.",
    "Trusted: reference model; property order within an element and edge order within a node are exempt as the property states. Ids handed out afterwards are adopted, not predicted.", "DESIGN 3/C13")
add("C14", "vcheck", "exploration", "small-scope exhaustive enumeration + proptest random graphs against a reference BFS/DFS",
    "Exhaustive: every multigraph with <=3 nodes and <=3 (thorough <=4, plus 4 nodes <=3) edges as edge-insertion sequences x every origin (node or edge) x {bfs,dfs} x {from,to}; random: graphs built by generated histories with removals and id reuse. The result sequence must equal the reference traversal exactly.",
    "Trusted: the reference traversal (textbook BFS / pre-order DFS over the element graph, newest connection first). Exhaustive only within the stated scope.", "DESIGN 3/C14")
add("C15", "vcheck", "exploration", "property testing (proptest): generated condition trees evaluated against a reference evaluator written from the documented truth tables",
    "Random property-bearing multigraphs with mixed value types under the same keys x random condition trees (every condition kind, modifier, logic operator and comparison) x bfs/dfs from/to and elements search; exact result sequence compared with reference evaluator + reference traversal.",
    "Trusted: the reference evaluator. Where the documentation does not tabulate a behaviour (at which distances each distance() comparison prunes; selection-neutrality of beyond/not_beyond under 'or') the reference adopts the behaviour pinned by the repository's own tests, so changes there are detected only as changes, not judged. distance() is not generated for elements searches.", "DESIGN 3/C15, appendix C")
add("C16", "vcheck", "exploration", "metamorphic property testing (proptest): sliced/ordered search vs slice/stable sort of the unsliced search",
    "Random searches (bfs/dfs from/to, path, elements, with conditions) x offset and limit in 0..n+3 x 0-3 order_by keys over keys with mixed presence and types: R(O,L) must equal the slice of R(0,0), the ordered result must equal the reference stable sort with missing keys last, never an error or panic (panics are caught and reported).",
    "Trusted: DbValue's public Ord for comparing values of a sort key; the reference model's property values (validated by the dump comparison at the end of each graph history).", "DESIGN 3/C16")
add("C17", "vcheck", "exploration", "small-scope exhaustive enumeration + proptest random graphs against a reference Dijkstra with a validity oracle",
    "Exhaustive 3-node multigraphs with <=3 (thorough <=4) edges x all endpoint pairs x 3 condition sets, plus random graphs, endpoints (nodes, edges, missing, aliases, equal) and condition sets without distance(). The result must be empty exactly when no usable path exists / an endpoint is not a node / origin == destination; otherwise it must be the selected elements of some path whose cost equals the reference minimum.",
    "Validity, not one expected answer: several optimal paths may exist. Conditions using distance() are excluded (element cost would be position dependent). For an endpoint id that does not exist either an error or an empty result is accepted.", "DESIGN 3/C17")
add("C18", "vcheck", "exploration", MB,
    "Histories with heavy removal and id reuse, then elements searches with and without conditions, limits and offsets: result must equal the model's live elements in increasing |id|, filtered and sliced; never a removed element.",
    "Trusted: reference model and evaluator; distance() is not generated for elements searches (undocumented there).", "DESIGN 3/C18")
add("C19", "vcheck", "exploration", "property testing (proptest) of long insert/remove cycle histories with a deterministic work-budget oracle",
    "Long histories of insert/remove cycles over 1..300 distinct aliases and indexed values (crossing the 64-slot minimum capacity and all rehash thresholds) on a StorageData wrapper that counts storage calls: a query exceeding 10^6 calls (largest legitimate one < 10^4) is reported as non-terminating.",
    "Non-termination is decided by a work budget on storage calls, which every probe loop performs; a loop that touches no storage would only be caught by the outer watchdog (undecided, not a violation).", "DESIGN 3/C19")

CRASH = "crash-point enumeration driven by proptest-generated programs: a source hook fires before every mutating file-system call; the engine copies the files at each event, recovers every image with the real open path and compares with the reference state"
add("C01", "vcheck", "fault_enumeration", CRASH,
    "Generated storage programs (all storage operations, nested transactions to depth 3, clean close or drop with unfinished transactions) on FileStorage and FileStorageMemoryMapped; every crash image (quick: all events of programs with <=80 events, else a stratified sample; thorough: all), torn log records cut inside the record being appended, repeated recovery (idempotence, empty log) and, in thorough, crashes during recovery itself, must recover to exactly the records, dead indexes and file length of the last outermost commit.",
    "Models process death (all completed calls persist, nothing is reordered), which is what the code relies on (it never syncs). Needs hooks H1/H2. The reference storage (index->bytes) is trusted; it is validated against the live storage by C04.", "DESIGN 3/C01, 2.5")
add("C02", "vcheck", "fault_enumeration", CRASH,
    "Generated histories of mutating queries and transactions on Db and DbFile with a final defragmenting drop; every selected crash image must open with both Db::new and DbFile::new and the full canonical dump must complete with every query Ok; cases run in isolated child processes with a 64 MiB single-allocation cap so that an abort or enormous allocation is attributed to the image.",
    "Process-death model as C01. Images taken during database creation are not part of the property (no history yet). Needs hooks H1/H2.", "DESIGN 3/C02")
add("C03", "vcheck", "fault_enumeration", CRASH,
    "Same engine as C02: the exact canonical dump of every reopened crash image (both openers) must equal the exact dump of the live database taken before or after the interrupted step (query or multi-query transaction, committed or rolled back).",
    "The before/after dumps come from the live database and are themselves validated against the reference model at every step. Needs hooks H1/H2.", "DESIGN 3/C03")
add("C04", "vcheck", "exploration", MB,
    "Generated storage programs (up to 60 / 400 operations, sizes around the 16-byte header, 5% invalid operations) on MemoryStorage, FileStorage and FileStorageMemoryMapped against a reference map index->bytes, compared after every step; optimize must leave no unused space; reopen must preserve everything. Quick also replays the fuzz seed corpus; thorough adds a 150 s libFuzzer campaign (fuzz_storage_ops, same oracle in the target).",
    "Uses the VerifStorage wrapper (hook H1) because Storage is crate-private. move_at semantics (copy, then zero the non-overlapped remainder of the source) is the contract DbVec relies on and the storage unit tests document.", "DESIGN 3/C04")
add("C32", "vcheck", "fault_enumeration", "fault injection through a public StorageData wrapper, positions and histories generated by proptest, reference model for the behaviour after the fault",
    "Generated histories on DbImpl<Faulty<FileStorage>>: one generated storage write/resize call inside one generated query fails (clean or short write); the query must return Err and leave no effect, later queries must conform to the reference model and survive close + reopen with both file variants. The listed known findings (one root cause) are met on most fault positions; they are counted and the campaign continues. A second campaign injects the same faults on a storage without recovery log, with signatures by the kind of the hit query: kinds that are clean on the unchanged tree (remove_aliases) must stay clean.",
    "Only write/resize calls made inside queries are failed (never Drop/reopen). Failure symptoms are classified coarsely (six classes) because they share one root cause, see known_findings.json.", "DESIGN 3/C32, appendix D")

add("C07", "vcheck", "exploration", "structured mutation of valid database files generated by proptest (record-aware truncation, header/root/word overwrites with boundary values, bit flips, damaged recovery logs) with the oracle in isolated child processes under an allocation cap",
    "Valid files from generated histories, damaged by 1-2 structured mutations and an optional damaged recovery log, opened with Db::new, DbFile::new and DbMemory::new and read completely; any panic, abort or single allocation request above 64 MiB is a violation attributed to the image; calls that do not answer within 3 s are counted as undecided. Listed known findings are counted and the campaign continues behind them. Quick also replays the fuzz seed corpus and saved artifacts; thorough adds a 300 s libFuzzer campaign (fuzz_open_db).",
    "Enormous allocation = one request above 64 MiB (inputs are a few KiB). Non-termination is not judged (the property does not list it). Panic signatures are keyed by source file + enclosing function + message, process-level ones by the first repository frame of the backtrace.", "DESIGN 3/C07")
add("C20", "vcheck", "exploration", RT,
    "Arbitrary values of every built-in AgdbSerialize implementation, of the query types (generated by the history grammar, nested conditions to depth 4) and of a corpus of 12 derived user types: deserialize(serialize(x)) equals x (Debug text and re-serialized bytes) and serialized_size equals the number of bytes. Thorough adds a 90 s libFuzzer campaign (fuzz_serialize_rt).",
    "Non-UTF-8 paths and IPv6 socket addresses with a non-zero flow label are outside the textual encodings the codec documents and are not generated.", "DESIGN 3/C20")
add("C21", "vcheck", "exploration", "mutation-based property testing (proptest) of valid encodings plus random bytes, oracle in isolated child processes under an allocation cap",
    "Valid encodings of every C20 type mutated (truncation, boundary length words, byte sets, bit flips, junk) and random byte strings, fed to 54 deserializers / typed conversions: each call must return Ok or Err. Thorough adds a 150 s libFuzzer campaign (fuzz_deserialize).",
    "Enormous allocation = one request above 64 MiB. Endless loops over zero-sized elements are undecided, not violations.", "DESIGN 3/C21")
add("C22", "vcheck", "exploration", RT,
    "A corpus of 12 derived DbType/DbElement types (optional fields in every position) with arbitrary field values stored singly and in batches, read back through both documented routes, one element updated through its db_id: values equal, only the updated element changes, typed searches return only that type.",
    "A None field is omitted on save (documented), so after an update the stored key keeps its previous value; the oracle expects exactly that.", "DESIGN 3/C22")

RAFT = "schedule exploration of the real consensus code in a deterministic simulator (virtual per-node clocks, harness-owned network): proptest-generated schedules (timer ticks, delivery, loss, lost responses, duplication, reordering, partitions, client appends) plus depth-first exhaustive enumeration over a reduced action alphabet with state de-duplication; invariants checked after every action; failures shrunk to a replay schedule"
add("C27", "raftsim", "exploration", RAFT,
    "3-node (and sampled 5-node) clusters running agdb_server/src/raft.rs itself: 80 000 (thorough 1.5 million) random schedules of up to 70 (250) actions in transport-faithful and adversarial network modes, plus every schedule over a 16-action alphabet to depth 8 (10) from the initial state; after every action the set of (term, node) pairs that were ever leader must hold at most one node per term.",
    "Trusted: the simulator's transport model (one FIFO channel per directed pair; responses of different targets may overtake each other; adversarial mode adds duplication and reordering), the build-time substitution of std::time::Instant by a virtual clock (nothing else in raft.rs is touched; the build fails if the import line changes). Exhaustive only to the stated depth over the reduced alphabet; random search never shows absence.", "DESIGN 3/C27, 2.7, appendix E")
add("C28", "raftsim", "exploration", RAFT,
    "Same campaigns as C27 with client appends at every node that believes it is leader (stale leaders included) and an in-memory log storage mirroring ClusterStorage/ClusterLog: after every action no two nodes hold different committed entries at one index, a committed entry never changes or disappears, commit indexes never decrease and never pass the log end. Pass A meets the listed known finding (append accepted on a divergent prefix) and continues; pass B excludes such deliveries by construction (counted) so that any other cause is reported.",
    "As C27. The known finding is identified by its trigger predicate evaluated on the trace (an Append accepted by a node whose entries below the first carried index differ from the sender's), not by the symptom.", "DESIGN 3/C28, appendix E")
add("C29", "raftsim", "exploration", RAFT,
    "Same campaigns as C28: the harness records every (index, term, data) that a node in Leader state committed (the acknowledgement point); whenever a node becomes leader its log must hold all of them at the same index. Pass A/B as for C28.",
    "As C28 (same root cause for the listed finding).", "DESIGN 3/C29, appendix E")
add("C30", "raftsim", "exploration", "bounded-liveness property testing in the deterministic raft simulator: proptest-generated fault-free schedules (delivery orders, append times) from the initial state and from states reached by generated faulty prefixes (loss, timer skew, partitions)",
    "2-, 3- and 5-node clusters: after the (optional) faulty prefix all clocks advance together in 10 ms quanta (the server's loop period), every in-flight message is delivered exactly once in a generated order, appends are issued at the settled leader; within 12 000 quanta (120 s of virtual time, 40 term timeouts) there must be exactly one leader followed by all nodes with every node having committed exactly the leader's entries, all of them. Refutes liveness within the bound, cannot establish it. Three listed known findings (2-node candidate livelock; reconciliation that cannot repair a follower with a stale higher-term tail, as endless message exchange and as missing replication) are met and counted; the campaign continues behind them.",
    "Weakest oracle of the suite (bounded liveness). The bound is 40x the longest convergence observed on the unchanged tree, reported as max_quanta_needed. A follower keeping a stale uncommitted entry beyond the leader's log is not judged (the property speaks of entries appended at the leader).", "DESIGN 3/C30, appendix E")

SRV = "model-based property testing against a real server process (proptest-generated request sequences over raw HTTP, reference permission / database / file-system models, state observed through the server's own endpoints and the file system)"
add("C24", "vcheck", "exploration", SRV,
    "Generated multi-user request sequences (5-40 requests; four users, one database of each kind; role grants/removals, exec/exec_mut with read and write batches, audit, backup, restore, clear, optimize, convert, copy, rename, delete, remove, user list, adding a database under another user's name, login, logout, change password, admin endpoints with user tokens; actors present valid, logged-out, garbage, missing or quoted tokens) against a freshly built agdb_server: a permission model written from the documented table predicts allowed / rejected; rejected means a 4xx answer and an unchanged observable server state, allowed means success and the modelled roles.",
    "Real tokio server: request handling order inside the server is the OS's, the oracle does not depend on it (requests are sequential). Token expiry (minimum 60 s, real clock) is not exercised. A user removing their own role is not in the documented table and not decided. The server strips quotes from bearer tokens on purpose; a quoted valid token counts as valid.", "DESIGN 3/C24, appendix C")
add("C25", "vcheck", "exploration", SRV,
    "Generated sequences of 4-10 query batches (reads, writes, failing queries, result references pointing at earlier / later / missing results, mutating queries sent to exec) by the owner and a write-role user on memory, mapped and file databases of a real server: the reference database model is applied per batch; a batch with a failing query must be rejected and leave the dump read back through exec unchanged, an applied batch must match the model; after every batch the audit endpoint must list exactly the mutating queries of the applied batches, in order, with the submitting user.",
    "Values restricted to those that survive JSON. Queries whose outcome the documentation leaves open are not decided (the batch must still be all-or-nothing).", "DESIGN 3/C25")
add("C26", "vcheck", "exploration", SRV,
    "Database names built from a grammar of path-like and special strings (separators raw / encoded / double encoded, dot segments, leading dots, reserved directory names, .bak/.log suffixes, blanks, control and non-ASCII characters) used with add, copy, rename, backup, restore, clear, convert, exec_mut, delete, remove on a fresh server per case, nested five directories below the scratch root; a manifest (path, size, hash) of the whole scratch root before and after every request decides: every changed path lies under data_dir/<owner>/, no file of another database changes, a rejected request changes nothing. Pass A meets the listed known findings (unvalidated names, keyed by the class of the name) and continues; pass B uses plain names only, where every failure is a violation.",
    "The name classes (separator, dot-dot segment, leading dot, reserved name, suffix) are the trigger predicates of the known findings; a failure for a plain name is always reported.", "DESIGN 3/C26, appendix F")

add("C23", "vcheck", "exploration", "stress property testing with generated databases, generated read workloads and a generated perturbation plan for a source hook in the read path (forced contention on the shared file handle); equality with the sequential baseline",
    "Databases from generated histories on DbFile (and Db at lower weight); 12-40 generated read queries executed by 2-16 threads under a shared RwLock read guard, singly and inside read transactions, 1-3 rounds; threads yield or sleep while holding the guard of the shared file handle (hook H3), which pushes the other readers onto the fresh-handle path (counted: required > 0 for a case to count). Every result must equal the result of the same query run alone before the threads start; a panic in a reader is a failure too.",
    "The operating system owns the interleaving: the hook forces contention but cannot enumerate schedules, so a race confined to a narrow window can be missed and a failure may not replay bit-for-bit (replay re-runs the saved workload 20 times). Weaker than the other checks by construction. Cases run in child processes with a 90 s watchdog because a corrupted read can send a reader into an endless scan (undecided, not a violation).", "DESIGN 3/C23")

add("C31", "vcheck", "exploration", "schedule-controlled property testing on a real 3-node cluster of server processes: proptest-generated action sequences and task-delay plans for a source hook in the execution task; trace invariant plus state agreement with the leader",
    "One follower is killed while idle, the remaining majority commits a generated sequence of 4-10 order-sensitive actions (users, databases, inserts, renames, copies, shares, deletions), the follower restarts and receives them all at once; hook H4 traces every execution (start/end per log index) and delays the executing task by a generated plan so that unordered tasks would finish in the order the plan dictates. The restarted node's trace must show every index once, never again after a restart, no overlap and increasing indexes; its observable state must become the leader's.",
    "Real processes and the wall clock: elections and catch-up are awaited with timeouts; a cluster that elects no leader within 40 s is an undecided case. Only the catch-up path of a restarted follower and the start-up replay are exercised, not every way several entries can be committed at once.", "DESIGN 3/C31, appendix E")

TITLES = {}
for l in open("/verif/properties.jsonl"):
    pr = json.loads(l)
    TITLES[pr["id"]] = pr["title"]

NOT_BUILT = "check not built yet (work in progress in this session); see DESIGN.md section 3 for the planned generated-input check"
NA = {}
for pid in TITLES:
    if pid not in CHECKS:
        NA[pid] = NOT_BUILT

manifest = {
    "version": 1,
    "setup_cmd": "cd /verif && ./tools/setup.sh",
    "hooks": {
        "guard": "--cfg agdb_verif",
        "enable": "RUSTFLAGS='--cfg agdb_verif' (set by /verif/check for every harness and server build); with the flag absent no hook code is compiled",
        "baseline_off_cmd": "cd /repo && cargo nextest run --workspace --no-fail-fast --offline --test-threads 8 || cargo test --workspace --no-fail-fast --offline",
        "source_commits": HOOK_COMMITS,
        "add_only": True,
    },
    "engines": [
        {"name": "vcheck", "path": "/verif/harness/vcheck", "serves_properties": sorted([k for k, v in CHECKS.items() if v[0] == "vcheck"]),
         "kind_free_text": "proptest-driven generators + reference models + crash/fault engines; one binary, one sub-command per property"},
        {"name": "fuzz", "path": "/verif/fuzzing", "serves_properties": ["C04", "C07", "C20", "C21"],
         "kind_free_text": "cargo-fuzz / libFuzzer targets whose semantic oracle (the property's own) is inside the target; seed corpus and saved artifacts are replayed in the quick tier, bounded campaigns run in the thorough tier (DESIGN.md appendix H)"},
        {"name": "raftsim", "path": "/verif/harness/raftsim", "serves_properties": sorted([k for k, v in CHECKS.items() if v[0] == "raftsim"]),
         "kind_free_text": "deterministic simulator around the unmodified agdb_server/src/raft.rs (virtual clock substituted at build time), schedules generated by proptest and by bounded exhaustive enumeration"},
    ],
    "checks": [],
    "notes": "All checks: exit 0 = held on everything explored (KNOWN-FINDING lines may be printed for the entries of known_findings.json), 1 = VIOLATION property=<id> replay=<path> for anything not listed there, 2 = machinery failure (never a verdict). VERIF_SEED selects the pseudo-random campaign; VERIF_WORKERS limits threads / child processes; VERIF_REPO selects another tree than /repo; VERIF_OUT redirects evidence and new replay files. Campaigns that run database code execute in child processes with a 64 MiB single-allocation cap; after the first shrunk unlisted counterexample the other workers stop. Replays: ./check <ID> --replay <file> (JSON replay files and raw libFuzzer artifacts). The thorough tiers of C04, C07, C20 and C21 add a bounded libFuzzer campaign (tools/fuzz.sh). Seeded changes with their detection results are under seeded/; DESIGN.md section 8 and appendices C-H record findings, false alarms and which check catches which change.",
    "not_applicable": [{"property_id": k, "reason": v} for k, v in sorted(NA.items())],
}
for pid in sorted(CHECKS):
    engine, cat, tech, text, note, ref = CHECKS[pid]
    manifest["checks"].append({
        "property_id": pid,
        "quick_cmd": f"./check {pid} quick",
        "thorough_cmd": f"./check {pid} thorough",
        "evidence_file": f"/verif/evidence/{pid}.json",
        "replay_cmd_template": f"./check {pid} --replay {{path}}",
        "engine": engine,
        "level_claimed": {"category": cat, "text": text, "design_ref": ref},
        "level_note": note,
        "technique": tech,
    })
json.dump(manifest, open("/verif/MANIFEST.json", "w"), indent=1)
print("checks:", len(manifest["checks"]), "not_applicable:", len(manifest["not_applicable"]))
