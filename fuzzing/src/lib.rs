// parent crate required by cargo-fuzz; the targets live in fuzz/
