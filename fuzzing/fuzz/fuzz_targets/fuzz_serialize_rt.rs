#![no_main]
use libfuzzer_sys::fuzz_target;

fuzz_target!(|data: &[u8]| {
    vcheck::fuzz_api::c20_values(data);
});
